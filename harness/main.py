"""./check <Cxx> [--tier quick|thorough] [--replay FILE]"""
from __future__ import annotations

import argparse
import importlib
import json
import os
import random
import sys
import time
import traceback

from . import core
from .core import Ctx, Finding


def main() -> int:
    ap = argparse.ArgumentParser()
    ap.add_argument("prop")
    ap.add_argument("--tier", default=os.environ.get("VERIF_TIER", "quick"), choices=["quick", "thorough"])
    ap.add_argument("--replay", default=None)
    args = ap.parse_args()
    prop = args.prop.upper()
    seed = int(os.environ.get("VERIF_SEED", "0") or 0)
    mod = importlib.import_module(f"harness.props.{prop.lower()}")
    ctx = Ctx(prop=prop, tier=args.tier, seed=seed, rng=random.Random(f"{prop}:{seed}"))

    if args.replay:
        return replay(mod, ctx, args.replay)

    violations = []   # (replay_path, suffix)
    known_lines = []
    proof_ok = True
    proof_msgs = []

    # 1. translator / generated files, build, lint, assumptions ---------------
    try:
        from . import gen_all
        needed = gen_all.gen_deps(mod.PROP_FILE)
        for name, msg in gen_all.regenerate(strict=False):
            ctx.notes.append(f"translator {name} did not regenerate its file: {msg}")
            if gen_all.gen_file_of(name) in needed:
                # the theorems of this property would be checked against a STALE generated file: the tie is broken
                proof_ok = False
                proof_msgs.append(f"translator {name} aborted and Gen/{gen_all.gen_file_of(name)}.v, on which {mod.PROP_FILE} depends, "
                                  f"no longer reflects the source: {msg}")
                print(f"TIE BROKEN: translator {name} aborted ({msg})")
        if hasattr(mod, "pre_build"):
            mod.pre_build(ctx)
    except core.TranslatorAbort as e:  # source no longer in the handled subset: broken tie
        proof_ok = False
        proof_msgs.append(f"translator: {e}")
    except Exception as e:  # noqa: BLE001 - e.g. a source file that no longer parses: the tie is broken as well
        proof_ok = False
        proof_msgs.append(f"translator stage raised {type(e).__name__}: {e}")
    thorough = args.tier == "thorough"
    ok, out = core.build_targets([mod.PROP_FILE], clean=False)
    if not ok:
        proof_ok = False
        proof_msgs.append("build of " + mod.PROP_FILE + " failed:\n" + out[-2500:])
    lint = core.lint()
    if lint:
        print("LINT:", *lint, sep="\n  ")
        print("broken machinery: forbidden construct in the Coq development", file=sys.stderr)
        return 2
    assum_blocks, assum_raw = [], ""
    if ok:
        aok, assum_blocks, assum_raw = core.property_assumptions(mod.PROP_FILE)
        if not aok:
            proof_ok = False
            proof_msgs.append("re-check of " + mod.PROP_FILE + " failed:\n" + assum_raw[-2500:])
        allowed = set(getattr(mod, "ALLOWED_AXIOMS", []))
        for blk in assum_blocks:
            names = [l.split(":")[0].strip() for l in blk.splitlines()[1:] if l and not l.startswith(" ") and ":" in l]
            extra = [n for n in names if n not in allowed]
            if extra:
                print("ASSUMPTIONS outside the declared trusted base:", extra)
                return 2
    coqchk_out = None
    if thorough and ok and os.environ.get("VERIF_NO_COQCHK") != "1":
        lib = "SR." + mod.PROP_FILE[:-2].replace("/", ".")
        rc, coqchk_out = core._run(["coqchk", "-silent", "-o", "-Q", ".", "SR", lib], cwd=core.COQ, timeout=3000)
        if rc != 0:
            proof_ok = False
            proof_msgs.append("coqchk failed:\n" + coqchk_out[-2000:])

    # 2. correspondence ------------------------------------------------------
    model_available = ok
    try:
        for b in mod.batches(ctx):
            if model_available:
                core.run_batch(ctx, b)
            else:
                oracle_only(ctx, b)
        if hasattr(mod, "extra"):
            mod.extra(ctx)
    except core.ToolingError as e:
        print("broken machinery:", e, file=sys.stderr)
        traceback.print_exc()
        return 2

    # 3. classify findings ---------------------------------------------------
    known = core.load_known(prop)
    n = 0
    # a broken tie without a concrete failing input: spend a search budget on fresh inputs,
    # judged by the property's own oracle on the implementation alone
    if (ctx.findings or not proof_ok) and not any(f.oracle_ok is False for f in ctx.findings) and hasattr(mod, "search"):
        try:
            found = mod.search(ctx)
        except Exception as e:
            found = None
            ctx.notes.append(f"failing-input search raised {type(e).__name__}: {e}")
        if found is not None:
            ctx.findings.append(found)
    ctx.findings.sort(key=lambda f: 0 if f.oracle_ok is False else 1)
    have_concrete = False
    for f in ctx.findings:
        kf = match_known(mod, f, known)
        if kf is not None:
            known_lines.append(f"KNOWN-FINDING: property={prop} {kf['id']} {kf['what']} (met again on a generated case)")
            continue
        if n >= 3 or (have_concrete and f.oracle_ok is not False) or (n >= 1 and f.oracle_ok is not False):
            break
        have_concrete = have_concrete or f.oracle_ok is False
        payload = {"property": prop, "batch": f.batch, "case": f.case, "impl": f.impl, "model": f.model,
                   "oracle_says_property_holds": f.oracle_ok, "detail": f.detail,
                   "replay_cmd": f"./check {prop} --replay <this file>", "seed": seed, "tier": args.tier}
        path = core.write_replay(prop, seed, n, payload)
        n += 1
        if f.oracle_ok is False:
            violations.append((path, ""))
        else:
            payload["broken"] = f"correspondence batch {f.batch} of {prop} (implementation differs from the proven model; the property's own oracle accepts the implementation's answer)"
            core.write_replay(prop, seed, n - 1, payload)
            violations.append((path, " no-failing-input-found"))
    if not proof_ok and not any(s == "" for _, s in violations):
        payload = {"property": prop, "broken": proof_msgs, "note": "theorem/generated-proof no longer checks; no concrete failing input found by the correspondence batches and oracles",
                   "seed": seed, "tier": args.tier}
        path = core.write_replay(prop, seed, 99, payload)
        violations.append((path, " no-failing-input-found"))

    # 4. known findings: replay witnesses ---------------------------------------
    def _replay(kf):
        try:
            return mod.replay_known(ctx, kf)
        except Exception as e:  # the witness no longer even runs: it still fails
            return True, f"witness replay raised {type(e).__name__}: {e}"[:300]

    for kf in known:
        if kf.get("status") == "known" and hasattr(mod, "replay_known"):
            still, what = _replay(kf)
            if still:
                known_lines.append(f"KNOWN-FINDING: property={prop} {kf['id']} {what}")
            else:
                ctx.notes.append(f"known finding {kf['id']}: witness no longer fails ({what})")
        elif kf.get("status") == "fixed" and hasattr(mod, "replay_known"):
            still, what = _replay(kf)
            if still:
                payload = {"property": prop, "regression_of": kf["id"], "what": what, "witness": kf.get("witness")}
                path = core.write_replay(prop, seed, 90 + len(violations), payload)
                violations.append((path, ""))

    # 5. evidence ------------------------------------------------------------
    files = [mod.PROP_FILE] + list(getattr(mod, "PROOF_FILES", []))
    obligations = core.count_statements(files)
    discharged = obligations if proof_ok else 0
    cov = {
        "obligations": obligations,
        "discharged": discharged,
        "checker_cmd": f"cd /verif/coq && make -j{core.NPROC} {mod.PROP_FILE}o && coqc -Q . SR {mod.PROP_FILE}"
                       + (" && coqchk -silent -o -Q . SR SR." + mod.PROP_FILE[:-2].replace('/', '.') if thorough else ""),
        "trusted_base": list(getattr(mod, "TRUSTED", [])) + [
            "Coq 8.16.1 kernel (coqc, vm_compute; no native_compute)",
            "Print Assumptions of every theorem in " + mod.PROP_FILE + ": "
            + ("Closed under the global context" if not assum_blocks else " | ".join(assum_blocks)),
            "hand-written model tied to the source by the correspondence batches below (differential testing, not proof)",
        ],
        "files": files,
        "evaluations": ctx.evaluations,
        "distinct_nontrivial": len(ctx.distinct),
        "rule": getattr(mod, "RULE", ""),
        "exhaustive": bool(ctx.exhaustive_all and ctx.batch_stats),
        "samples": ctx.samples[:12] or [{"note": "no correspondence batch ran"}],
        "batches": ctx.batch_stats,
        "input_distribution": ctx.dist,
        "open_goals": list(getattr(mod, "OPEN_GOALS", [])),
        "known_findings_reported": known_lines,
        "notes": [_repo_note()] + ctx.notes + proof_msgs,
        "print_assumptions": assum_raw.strip().splitlines()[-40:],
    }
    if coqchk_out is not None:
        cov["coqchk"] = coqchk_out.strip().splitlines()[-30:]
    if discharged == 0:
        # the proof no longer checks: keep the file schema-valid through the generic keys
        cov["obligations_not_discharged"] = cov.pop("obligations")
        cov.pop("discharged")
    ev = {
        "property_id": prop, "tier": args.tier, "seed": seed, "level": getattr(mod, "LEVEL", "proof"),
        "coverage": cov, "assumptions": list(getattr(mod, "ASSUMES", [])),
        "wall_s": round(time.time() - ctx.t0, 2), "violations": len(violations),
    }
    for l in known_lines:
        print(l)
    for path, suffix in violations:
        print(f"VIOLATION property={prop} replay={path}{suffix}")
    sys.stdout.flush()
    try:
        core.write_evidence(ev)
    except Exception as e:  # never let an evidence problem hide the verdict
        print(f"evidence not written: {e!r}", file=sys.stderr)
        if not violations:
            return 2
    print(f"[{prop}] tier={args.tier} seed={seed} obligations={obligations} discharged={discharged} "
          f"evaluations={ctx.evaluations} distinct_nontrivial={len(ctx.distinct)} "
          f"violations={len(violations)} wall={ev['wall_s']}s")
    return 1 if violations else 0


def _repo_note() -> str:
    """which tree this run looked at (evidence written while a seeded change is evaluated must be recognisable as such)"""
    import subprocess
    repo = str(core.REPO)
    try:
        head = subprocess.run(["git", "-C", repo, "rev-parse", "--short", "HEAD"], capture_output=True, text=True, timeout=20).stdout.strip()
        dirty = subprocess.run(["git", "-C", repo, "status", "--porcelain", "--untracked-files=no"], capture_output=True, text=True, timeout=20).stdout.strip()
        return f"repository checked: {repo} at {head or '?'}" + (" with uncommitted changes to tracked files" if dirty else ", working tree clean")
    except Exception as e:  # noqa: BLE001
        return f"repository checked: {repo} (git state not read: {e})"


def oracle_only(ctx: Ctx, b: core.Batch) -> None:
    """The model cannot be evaluated (proof/build broken): run the implementation
    and the property's independent oracle on every case."""
    for c in b.cases:
        r = b.impl(c)
        ctx.evaluations += 1
        if b.oracle is not None:
            ok, detail = b.oracle(c, r)
            if ok is False:
                ctx.findings.append(Finding(b.name, c, r, "(model unavailable)", False, detail))
    ctx.exhaustive_all = False


def match_known(mod, f: Finding, known):
    if not hasattr(mod, "known_signature"):
        return None
    for kf in known:
        if kf.get("status") == "known" and mod.known_signature(f, kf):
            return kf
    return None


def replay(mod, ctx: Ctx, path: str) -> int:
    payload = json.load(open(path))
    if "case" not in payload:
        print("replay names a broken theorem/correspondence, not an input:", payload.get("broken"))
        ok, out = core.build_targets([mod.PROP_FILE])
        print("build ok" if ok else out[-2000:])
        return 0 if ok else 1
    bname = payload["batch"]
    ctx.replay_case = payload["case"]
    for b in mod.batches(ctx):
        if b.name != bname:
            continue
        b.cases = [payload["case"]]
        core.run_batch(ctx, b)
        r = b.impl(payload["case"])
        print("case:", json.dumps(payload["case"]))
        print("implementation:", json.dumps(r, default=str))
        if ctx.findings:
            f = ctx.findings[0]
            print("model:", f.model)
            print("oracle:", f.oracle_ok, f.detail)
            print(f"VIOLATION property={ctx.prop} replay={path}" + ("" if f.oracle_ok is False else " no-failing-input-found"))
            return 1
        print("implementation and model agree on this case")
        return 0
    if hasattr(mod, "replay_case"):
        # findings that do not come from a correspondence batch (failing-input search, oracle samples,
        # metamorphic pairs): the module re-judges the stored input on the implementation alone
        holds, detail, r = mod.replay_case(payload)
        print("case:", json.dumps(payload["case"]))
        print("implementation:", json.dumps(r, default=str)[:4000])
        print("oracle:", holds, detail)
        if holds is False:
            print(f"VIOLATION property={ctx.prop} replay={path}")
            return 1
        print("the property holds on this input")
        return 0
    print("unknown batch", bname)
    return 2


if __name__ == "__main__":
    sys.exit(main())
