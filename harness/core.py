"""Shared machinery of the /verif checks.

One check = (1) rebuild the Coq cone of the property (kernel re-checks the
theorems), lint, collect `Print Assumptions`; (2) correspondence: run the
implementation under $VERIF_REPO and the Coq model (evaluated by `coqc` with
`vm_compute`) on the same generated cases and diff; (3) on disagreement, search
for a concrete failing input with the property's independent oracle; (4) replay
known-finding witnesses; (5) write evidence, print verdict lines, exit 0/1.
"""
from __future__ import annotations

import fcntl
import hashlib
import json
import os
import random
import re
import shutil
import subprocess
import sys
import time
from concurrent.futures import ThreadPoolExecutor
from dataclasses import dataclass, field
from pathlib import Path
from typing import Any, Callable, Dict, Iterable, List, Optional, Sequence, Tuple

VERIF = Path(__file__).resolve().parent.parent
COQ = VERIF / "coq"
BUILD = VERIF / "build"
TMP = BUILD / "tmp"
REPO = Path(os.environ.get("VERIF_REPO", "/repo"))
NPROC = os.cpu_count() or 4

FORBIDDEN = re.compile(
    r"\b(Admitted|admit|Axiom|Axioms|Parameter|Parameters|Conjecture|Conjectures|"
    r"Unset\s+Guard\s+Checking|bypass_check|Admit\s+Obligations|"
    r"Unset\s+Positivity\s+Checking|Unset\s+Universe\s+Checking|type-in-type|impredicative-set)\b"
)

class ToolingError(RuntimeError):
    """The machinery itself is broken (exit 2, never a statement about the code)."""


class TranslatorAbort(RuntimeError):
    """A fail-closed translator met source outside its handled subset."""


# ---------------------------------------------------------------------------
# Gallina literal helpers


def cN(n: int) -> str:
    assert n >= 0
    return f"{n}%N"


def cZ(z: int) -> str:
    return f"({z})%Z"


def cnat(n: int) -> str:
    assert 0 <= n < 5000
    return f"{n}%nat"


def cbool(b: bool) -> str:
    return "true" if b else "false"


def clist(items: Iterable[str]) -> str:
    return "[" + "; ".join(items) + "]"


def copt(x: Optional[str]) -> str:
    return "None" if x is None else f"(Some {x})"


def cpair(*xs: str) -> str:
    return "(" + ", ".join(xs) + ")"


def cstr(s: str) -> str:
    assert all(32 <= ord(c) < 127 for c in s), s
    return '"' + s.replace('"', '""') + '"%string'


# ---------------------------------------------------------------------------
# Coq build


def _run(cmd, cwd=None, timeout=3600, env=None) -> Tuple[int, str]:
    try:
        p = subprocess.run(
            cmd, cwd=cwd, stdout=subprocess.PIPE, stderr=subprocess.STDOUT,
            timeout=timeout, text=True, env=env,
        )
        return p.returncode, p.stdout
    except subprocess.TimeoutExpired as e:
        return 124, (e.stdout or "") + "\nTIMEOUT"


def coq_sources() -> List[str]:
    out = []
    for d in ("Base", "Model", "Proofs", "Gen", "Properties"):
        for p in sorted((COQ / d).glob("*.v")):
            out.append(f"{d}/{p.name}")
    return out


def refresh_coqproject() -> None:
    head = "-Q . SR\n-arg -w -arg -notation-overridden,-deprecated-hint-without-locality,-deprecated-instance-without-locality\n"
    text = head + "\n".join(coq_sources()) + "\n"
    cp = COQ / "_CoqProject"
    if not cp.exists() or cp.read_text() != text:
        cp.write_text(text)
    mk = COQ / "Makefile"
    if not mk.exists() or mk.stat().st_mtime < cp.stat().st_mtime:
        rc, out = _run(["coq_makefile", "-f", "_CoqProject", "-o", "Makefile"], cwd=COQ)
        if rc != 0:
            raise RuntimeError("coq_makefile failed:\n" + out)


class BuildLock:
    def __enter__(self):
        BUILD.mkdir(exist_ok=True)
        self.f = open(BUILD / ".lock", "w")
        fcntl.flock(self.f, fcntl.LOCK_EX)
        return self

    def __exit__(self, *a):
        fcntl.flock(self.f, fcntl.LOCK_UN)
        self.f.close()


def build_targets(targets: Sequence[str], clean: bool = False, timeout: int = 3000) -> Tuple[bool, str]:
    """make the given .vo targets (and their dependency cone)."""
    with BuildLock():
        refresh_coqproject()
        if clean:
            _run(["make", "clean"], cwd=COQ)
            refresh_coqproject()
        rc, out = _run(["make", f"-j{NPROC}"] + [t.replace(".v", ".vo") if t.endswith(".v") else t for t in targets],
                       cwd=COQ, timeout=timeout)
    return rc == 0, out


def lint() -> List[str]:
    bad = []
    for rel in coq_sources():
        txt = (COQ / rel).read_text()
        # strip comments (non-nested is enough for our sources; nested handled by loop)
        prev = None
        while prev != txt:
            prev = txt
            txt = re.sub(r"\(\*(?:(?!\(\*|\*\)).)*?\*\)", " ", txt, flags=re.S)
        for m in FORBIDDEN.finditer(txt):
            bad.append(f"{rel}: forbidden token {m.group(0)!r}")
        # Variable/Hypothesis/Context outside a section
        depth = 0
        for line in txt.splitlines():
            s = line.strip()
            if re.match(r"Section\s+\w+", s):
                depth += 1
            elif re.match(r"End\s+\w+\s*\.", s) and depth > 0:
                depth -= 1
            elif depth == 0 and re.match(r"(Variable|Variables|Hypothesis|Hypotheses|Context)\b", s):
                bad.append(f"{rel}: {s.split()[0]} outside a section")
    cp = (COQ / "_CoqProject").read_text() if (COQ / "_CoqProject").exists() else ""
    if "type-in-type" in cp or "impredicative" in cp or "-vos" in cp:
        bad.append("_CoqProject: forbidden flag")
    return bad


def property_assumptions(prop_file: str) -> Tuple[bool, List[str], str]:
    """Re-check Properties/Cxx.v with coqc and parse its Print Assumptions output.
    Returns (ok, list of non-closed assumption blocks, raw output)."""
    rc, out = _run(["coqc", "-Q", ".", "SR", "-w", "-notation-overridden", prop_file], cwd=COQ, timeout=1200)
    if rc != 0:
        return False, [], out
    blocks = []
    cur: List[str] = []
    for line in out.splitlines():
        if line.startswith("Closed under the global context"):
            if cur:
                blocks.append("\n".join(cur)); cur = []
            continue
        if line.startswith("Axioms:"):
            if cur:
                blocks.append("\n".join(cur))
            cur = [line]
        elif cur:
            cur.append(line)
    if cur:
        blocks.append("\n".join(cur))
    return True, blocks, out


def count_statements(files: Sequence[str]) -> int:
    n = 0
    for rel in files:
        p = COQ / rel
        if p.exists():
            n += len(re.findall(r"^\s*(Theorem|Lemma|Corollary|Example|Fact|Proposition|Remark)\s", p.read_text(), flags=re.M))
    return n


# ---------------------------------------------------------------------------
# Model evaluation inside Coq

COQ_HEADER = """From Coq Require Import List Bool Arith ZArith NArith.
Import ListNotations.
Set Printing Width 100000.
Set Printing Depth 100000.
"""


def _coq_shard(args) -> Tuple[int, str]:
    path, = args
    rc, out = _run(["coqc", "-Q", str(COQ), "SR", "-w", "-notation-overridden", str(path)], cwd=path.parent, timeout=1800)
    return rc, out


def coq_mismatches(tag: str, header: str, run: str, eqb: str, ty_in: str, ty_out: str,
                   cases: Sequence[Tuple[str, str]], shard: int = 400) -> Tuple[List[Tuple[int, str]], float]:
    """Evaluate `run input` in Coq for every (input, expected) literal pair and
    return [(index, model_output_text)] for those where `eqb (run input) expected`
    is false.  Raises RuntimeError if coqc fails (broken tooling, exit 2)."""
    t0 = time.time()
    d = TMP / f"{tag}_{os.getpid()}"
    if d.exists():
        shutil.rmtree(d)
    d.mkdir(parents=True)
    paths = []
    for k in range(0, len(cases), shard):
        chunk = cases[k:k + shard]
        name = f"cases_{k // shard}.v"
        body = [COQ_HEADER, header,
                f"Definition cases : list (N * ({ty_in}) * ({ty_out})) := ["]
        body.append(";\n".join(f"({k + j}%N, {ci}, {co})" for j, (ci, co) in enumerate(chunk)))
        body.append("].\n")
        body.append(
            f"Definition mism := flat_map (fun c : N * ({ty_in}) * ({ty_out}) => "
            f"let '(i, a, b) := c in let r := ({run}) a in if ({eqb}) r b then [] else [(i, r)]) cases.\n"
            "Definition mism_v := Eval vm_compute in mism.\n"
            "Eval vm_compute in (111111%N, map fst mism_v).\n"
            "Eval vm_compute in (222222%N, mism_v).\n")
        p = d / name
        p.write_text("\n".join(body))
        paths.append(p)
    res: List[Tuple[int, str]] = []
    with ThreadPoolExecutor(max_workers=NPROC) as ex:
        outs = list(ex.map(_coq_shard, [(p,) for p in paths]))
    for p, (rc, out) in zip(paths, outs):
        if rc != 0:
            keep = BUILD / f"failed_{tag}.v"
            shutil.copy(p, keep)
            raise ToolingError(f"coqc failed on generated cases ({keep}):\n{out[-3000:]}")
        m = re.search(r'= \(111111%N,\s*(.*?)\)\s*:\s', out, flags=re.S)
        if not m:
            raise ToolingError(f"cannot parse coq output:\n{out[-2000:]}")
        idxs = [int(x) for x in re.findall(r"(\d+)%N", m.group(1))]
        if not idxs and m.group(1).strip() not in ("[]", "nil"):
            idxs = [int(x) for x in re.findall(r"\d+", m.group(1))]
        raw = ""
        m2 = re.search(r'= \(222222%N,\s*(.*)\)\s*:\s', out, flags=re.S)
        if m2:
            raw = m2.group(1)
        for i in idxs:
            mm = re.search(r"\(%d%%N,\s*(.*?)\)(?:;\s*\(\d+%%N,|\]\s*$)" % i, raw, flags=re.S)
            res.append((i, mm.group(1) if mm else raw[:1500]))
    shutil.rmtree(d, ignore_errors=True)
    return res, time.time() - t0


# ---------------------------------------------------------------------------
# Batches, verdicts, evidence


@dataclass
class Batch:
    name: str
    header: str                 # Coq: Require lines + local definitions
    run: str                    # Coq term : ty_in -> ty_out
    eqb: str                    # Coq term : ty_out -> ty_out -> bool
    ty_in: str
    ty_out: str
    cases: List[Any]            # JSON-able inputs
    impl: Callable[[Any], Any]  # case -> JSON-able implementation result
    enc_in: Callable[[Any], str]
    enc_out: Callable[[Any, Any], str]       # (case, impl result) -> Gallina literal of ty_out
    oracle: Optional[Callable[[Any, Any], Tuple[bool, str]]] = None
    # oracle(case, impl_result) -> (property holds on this case?, detail); independent of the model
    nontrivial: Optional[Callable[[Any, Any], bool]] = None
    exhaustive: bool = False
    shrink: Optional[Callable[[Any], Iterable[Any]]] = None
    shard: int = 400
    describe: str = ""
    observe: Optional[Callable[[Any, Any], None]] = None
    # observe(case, impl_result): called in the PARENT process for every case after the implementation runs
    # (impl may run in forked workers, where anything it records in module state is lost)


@dataclass
class Finding:
    batch: str
    case: Any
    impl: Any
    model: str
    oracle_ok: Optional[bool]
    detail: str


@dataclass
class Ctx:
    prop: str
    tier: str
    seed: int
    rng: random.Random
    t0: float = field(default_factory=time.time)
    evaluations: int = 0
    distinct: set = field(default_factory=set)
    samples: list = field(default_factory=list)
    dist: dict = field(default_factory=dict)
    exhaustive_all: bool = True
    findings: List[Finding] = field(default_factory=list)
    notes: List[str] = field(default_factory=list)
    batch_stats: list = field(default_factory=list)

    def quick(self) -> bool:
        return self.tier == "quick"


def case_key(case: Any) -> str:
    return hashlib.sha1(json.dumps(case, sort_keys=True, default=str).encode()).hexdigest()


_CUR_BATCH = None


def _impl_idx(i):
    c = _CUR_BATCH.cases[i]
    r = _CUR_BATCH.impl(c)
    return r, c          # the case is sent back: some implementations record observations in it


def run_impl(b: "Batch") -> list:
    """run the implementation on every case; in parallel worker processes (fork) for large batches.
    The implementation functions take no randomness from the harness, so the results do not depend
    on the scheduling."""
    global _CUR_BATCH
    n = len(b.cases)
    if n < 64 or os.environ.get("VERIF_SERIAL") == "1" or not getattr(b, "parallel", True):
        return [b.impl(c) for c in b.cases]
    import multiprocessing as mp
    _CUR_BATCH = b
    try:
        with mp.get_context("fork").Pool(min(NPROC, 16)) as pool:
            out = pool.map(_impl_idx, range(n), chunksize=max(1, n // (NPROC * 8)))
        for i, (_, c) in enumerate(out):
            b.cases[i] = c
        return [r for r, _ in out]
    finally:
        _CUR_BATCH = None


def run_batch(ctx: Ctx, b: Batch) -> None:
    t0 = time.time()
    results = run_impl(b)
    t_impl = time.time() - t0
    if b.observe is not None:
        for c, r in zip(b.cases, results):
            b.observe(c, r)
    lits = [(b.enc_in(c), b.enc_out(c, r)) for c, r in zip(b.cases, results)]
    mism, t_coq = coq_mismatches(f"{ctx.prop}_{b.name}", b.header, b.run, b.eqb, b.ty_in, b.ty_out, lits, shard=b.shard)
    nt = 0
    for c, r in zip(b.cases, results):
        if b.nontrivial is None or b.nontrivial(c, r):
            k = b.name + ":" + case_key(c)
            if k not in ctx.distinct:
                ctx.distinct.add(k); nt += 1
    ctx.evaluations += len(b.cases)
    if not b.exhaustive:
        ctx.exhaustive_all = False
    if b.cases and len(ctx.samples) < 12:
        for j in sorted({0, len(b.cases) // 2, len(b.cases) - 1}):
            ctx.samples.append({"batch": b.name, "input": b.cases[j], "impl": results[j], "model_agrees": j not in {i for i, _ in mism}})
    ctx.batch_stats.append({"batch": b.name, "cases": len(b.cases), "nontrivial_new": nt, "exhaustive": b.exhaustive,
                            "mismatches": len(mism), "impl_s": round(t_impl, 2), "coq_s": round(t_coq, 2), "describe": b.describe})
    for i, raw in mism[:50]:
        c, r = b.cases[i], results[i]
        # shrink while still disagreeing is left to the property (b.shrink); here: oracle
        ok, detail = (None, "no independent oracle for this batch")
        if b.oracle is not None:
            ok, detail = b.oracle(c, r)
        ctx.findings.append(Finding(b.name, c, r, raw, ok, detail))


# ---------------------------------------------------------------------------
# Known findings


def load_known(prop: str) -> List[dict]:
    p = VERIF / "known_findings.jsonl"
    out = []
    if p.exists():
        for line in p.read_text().splitlines():
            line = line.strip()
            if line and not line.startswith("#"):
                d = json.loads(line)
                if d.get("property") == prop or prop in d.get("properties", []):
                    out.append(d)
    return out


# ---------------------------------------------------------------------------
# Evidence


def validate_evidence(ev: dict) -> None:
    for k in ("property_id", "tier", "seed", "level", "coverage", "wall_s"):
        assert k in ev, k
    cov = ev["coverage"]
    assert ev["tier"] in ("quick", "thorough")
    assert isinstance(ev["seed"], int)
    if ev["level"] == "proof" and "discharged" in cov:
        assert cov["obligations"] >= 1 and cov["discharged"] >= 1
        assert cov["checker_cmd"].strip()
        assert isinstance(cov["trusted_base"], list)
    assert isinstance(cov.get("samples", []), list)


def write_evidence(ev: dict) -> Path:
    validate_evidence(ev)
    # evidence/ describes runs against /repo; a run against another tree (VERIF_REPO: a scratch worktree holding a seeded or a
    # harmless change) leaves it alone and writes under build/tmp instead
    d = VERIF / "evidence" if REPO.resolve() == Path("/repo") else VERIF / "build" / "tmp" / "evidence_other_tree"
    d.mkdir(parents=True, exist_ok=True)
    p = d / f"{ev['property_id']}.json"
    tmp = p.with_suffix(".tmp")
    tmp.write_text(json.dumps(ev, indent=1, sort_keys=True, default=str) + "\n")
    tmp.replace(p)
    return p


def write_replay(prop: str, seed: int, n: int, payload: dict) -> str:
    d = VERIF / "replays"
    d.mkdir(exist_ok=True)
    p = d / f"{prop}-{seed}-{n}.json"
    p.write_text(json.dumps(payload, indent=1, sort_keys=True, default=str) + "\n")
    return f"replays/{p.name}"
