"""Regenerate every coq/Gen/*.v file from the current source ($VERIF_REPO); used by setup.sh."""
import importlib
import os
from pathlib import Path


def regenerate():
    repo = Path(os.environ.get("VERIF_REPO", "/repo"))
    for name in ("cli_table", "tikz_templates", "subseq_gen", "rmq_gen", "dsu_gen", "entry_gen"):
        try:
            mod = importlib.import_module(f"translator.{name}")
        except ModuleNotFoundError:
            continue
        (getattr(mod, 'regenerate', None) or getattr(mod, 'generate'))(repo)


if __name__ == "__main__":
    regenerate()
