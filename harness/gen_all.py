"""Regenerate every coq/Gen/*.v file from the current source ($VERIF_REPO).

Used by setup.sh and at the start of EVERY check: a property file may depend on several generated files (C06's
evaluator tie uses the generated subsequence functions), so all of them must reflect the tree under test, not
whatever an earlier run against another tree left behind.  A translator that aborts (source outside the handled
subset) leaves its file as it is; the property that owns the file reports that through its own pre_build."""
import importlib
import os
from pathlib import Path

DRIVERS = ("cli_table", "tikz_templates", "subseq_gen", "rmq_gen", "dsu_gen", "build_gen", "entry_gen", "eval_gen", "lca_gen", "toposort_gen", "table_gen", "thl_gen", "spfs_gen", "uspfs_gen")


def regenerate(strict=True):
    """returns the list of (driver, message) that aborted (empty when strict, which raises instead)"""
    repo = Path(os.environ.get("VERIF_REPO", "/repo"))
    aborted = []
    for name in DRIVERS:
        try:
            mod = importlib.import_module(f"translator.{name}")
        except ModuleNotFoundError as e:
            if strict:
                raise
            aborted.append((name, f"driver missing: {e}"))
            continue
        try:
            (getattr(mod, 'regenerate', None) or getattr(mod, 'generate'))(repo)
        except Exception as e:  # noqa: BLE001 - TranslatorAbort or a parse error of a broken source file
            if strict:
                raise
            aborted.append((name, f"{type(e).__name__}: {e}"[:300]))
    return aborted


def gen_file_of(name):
    """the stem of the generated file a driver owns (Gen/<stem>.v)"""
    try:
        return Path(importlib.import_module(f"translator.{name}").OUT).stem
    except Exception:  # noqa: BLE001
        return "".join(w.capitalize() for w in name.split("_"))


def gen_deps(prop_file):
    """stems of the Gen/*.v files in the dependency cone of a property file (text scan of the Require lines, transitive)"""
    import re
    coq = Path(__file__).resolve().parent.parent / "coq"
    seen, todo, gens = set(), [prop_file], set()
    while todo:
        f = todo.pop()
        if f in seen:
            continue
        seen.add(f)
        path = coq / f
        if not path.exists():
            continue
        text = re.sub(r"\(\*.*?\*\)", " ", path.read_text(), flags=re.S)
        for sent in re.findall(r"(?:From\s+SR\s+)?Require\s+(?:Import|Export)?\s*([^.]*(?:\.[A-Za-z_][^.]*)*)\.(?=\s)", text):
            for m in re.findall(r"(?:SR\.)?((?:Base|Model|Proofs|Properties|Gen)\.[A-Za-z0-9_]+)", sent):
                d, stem = m.split(".")
                if d == "Gen":
                    gens.add(stem)
                todo.append(f"{d}/{stem}.v")
    return gens


if __name__ == "__main__":
    regenerate()
