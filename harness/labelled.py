"""Independent brute-force style oracles for labelled (super-)reconciliations, written from
the property texts: plain lists/sets of families, no masks, no package code."""
from __future__ import annotations

import itertools
import json

from . import recon as R


def is_subseq(c, p):
    it = iter(p)
    return all(x in it for x in c)


def runs(child, parent, edges):
    flags = [x in child for x in parent]
    rs, i = [], 0
    while i < len(flags):
        if not flags[i]:
            j = i
            while j < len(flags) and not flags[j]:
                j += 1
            rs.append((i, j)); i = j
        else:
            i += 1
    if not edges:
        rs = [(a, b) for a, b in rs if a > 0 and b < len(flags)]
    return len(rs)


def ordered_node_losses(e, P, A, B):
    la = lambda ed: runs(A, P, ed)
    lb = lambda ed: runs(B, P, ed)
    return {"S": la(True) + lb(True), "D": min(la(True) + lb(False), la(False) + lb(True)),
            "TL": la(True) + lb(False), "TR": la(False) + lb(True)}[e]


def unordered_node_losses(e, P, A, B):
    la = 0 if set(P) <= set(A) else 1
    lb = 0 if set(P) <= set(B) else 1
    return {"S": la + lb, "D": min(la, lb), "TL": la, "TR": lb}[e]


def compatible_orders(O):
    leaves = [l["syn"] for _, l in R.otree_leaves(O)]
    fams = sorted({f for s in leaves for f in s})
    return [list(p) for p in itertools.permutations(fams) if all(is_subseq(s, p) for s in leaves)]


def _merge(best, v, sols):
    if best[0] is None or v < best[0]:
        best[0], best[1] = v, []
    if v == best[0]:
        best[1].extend(sols)


def best_ordered(S, O, c, orders, lca_only=False, max_solutions=20000):
    """(min cost, set of optimal labelled solutions as json strings); lca_only: base variant"""
    orc = R.Oracle(S)
    hgt = float("inf") if c["hgt"] == R.INF else c["hgt"]
    overall = [None, []]
    for order in orders:
        labels = [tuple(x for i, x in enumerate(order) if m >> i & 1) for m in range(1, 1 << len(order))]

        def lca_species(o):
            ls = [l["sp"] for _, l in R.otree_leaves(o)]
            s = ls[0]
            for x in ls[1:]:
                s = orc.lca(s, x)
            return s

        def go(o, is_root):
            if isinstance(o, dict):
                syn = tuple(o["syn"])
                if not is_subseq(syn, order) or not syn:
                    return {}
                return {(o["sp"], syn): (0, [[o["sp"], list(syn)]])}
            A, B = go(o[0], False), go(o[1], False)
            out = {}
            sp_choices = [lca_species(o)] if lca_only else orc.nodes
            for s in sp_choices:
                for P in ([tuple(order)] if is_root else labels):
                    best = [None, []]
                    for (l, LA), (ca, sa) in A.items():
                        if not is_subseq(LA, P):
                            continue
                        for (r, LB), (cb, sb) in B.items():
                            if not is_subseq(LB, P):
                                continue
                            e = orc.event(s, l, r)
                            if e is None:
                                continue
                            k = orc.node_cost(c, s, l, r) + c["sloss"] * ordered_node_losses(e, P, LA, LB)
                            v = k + ca + cb
                            if v == float("inf"):
                                continue
                            _merge(best, v, [[s, list(P), x, y] for x in sa for y in sb][:max_solutions])
                    if best[0] is not None:
                        out[(s, P)] = (best[0], best[1])
            return out
        top = go(O, True)
        for v, sols in top.values():
            _merge(overall, v, sols)
    if overall[0] is None:
        return None, set()
    return overall[0], {json.dumps(x) for x in overall[1]}


def gain_nodes(O):
    """family -> path of the LCA (in the object tree) of the leaves carrying it"""
    where = {}
    for p, l in R.otree_leaves(O):
        for f in l["syn"]:
            where.setdefault(f, []).append(p)
    out = {}
    for f, ps in where.items():
        s = ps[0]
        for x in ps[1:]:
            i = 0
            while i < len(s) and i < len(x) and s[i] == x[i]:
                i += 1
            s = s[:i]
        out[f] = s
    return out


def best_unordered(S, O, c, lca_only=False, canonical_only=False, max_solutions=20000):
    """minimum over all valid species mappings and all family-set labellings in which each family
    is gained once, at the LCA of the leaves carrying it (occurs only inside that subtree, never
    below a node whose parent lacks it, except at the gain node)"""
    orc = R.Oracle(S)
    gains = gain_nodes(O)

    def lca_species(o):
        ls = [l["sp"] for _, l in R.otree_leaves(o)]
        s = ls[0]
        for x in ls[1:]:
            s = orc.lca(s, x)
        return s

    # required content of node p: the families carried by a leaf below p whose gain node is p or above p
    def required(o, p):
        return {f for _, l in R.otree_leaves(o) for f in l["syn"] if p.startswith(gains[f])}

    # enumerate top-down is awkward for a DP; do bottom-up over (species, label) with validity checked per edge
    def allowed_labels(o, p):
        req = required(o, p)
        # families that may additionally be present: gained strictly above p and carried somewhere (inherited extras)
        extras = [f for f, g in gains.items() if len(g) < len(p) and p.startswith(g) and f not in req]
        labs = []
        for k in range(len(extras) + 1):
            for ex in itertools.combinations(extras, k):
                labs.append(frozenset(req | set(ex)))
        return labs

    def edge_ok(P, C, cp):
        # a family of the child is in the parent unless gained at the child
        if not all((f in P) or gains[f] == cp for f in C):
            return False
        if canonical_only:
            # the child holds its required content, or its parent's content plus its own gains
            req = req_of[cp]
            inh = frozenset(set(P) | {f for f, g in gains.items() if g == cp})
            return C == req or C == inh
        return True

    req_of = {}

    def fill_req(o, p):
        req_of[p] = frozenset(required(o, p))
        if not isinstance(o, dict):
            fill_req(o[0], p + "0"); fill_req(o[1], p + "1")
    fill_req(O, "")

    def dp(o, p):
        if isinstance(o, dict):
            return {(o["sp"], frozenset(o["syn"])): (0, [[o["sp"], sorted(o["syn"])]])}
        A, B = dp(o[0], p + "0"), dp(o[1], p + "1")
        out = {}
        for s in ([lca_species(o)] if lca_only else orc.nodes):
            for P in allowed_labels(o, p):
                best = [None, []]
                for (l, LA), (ca, sa) in A.items():
                    if not edge_ok(P, LA, p + "0"):
                        continue
                    for (r, LB), (cb, sb) in B.items():
                        if not edge_ok(P, LB, p + "1"):
                            continue
                        e = orc.event(s, l, r)
                        if e is None:
                            continue
                        v = orc.node_cost(c, s, l, r) + c["sloss"] * unordered_node_losses(e, P, LA, LB) + ca + cb
                        if v == float("inf"):
                            continue
                        _merge(best, v, [[s, sorted(P), x, y] for x in sa for y in sb][:max_solutions])
                if best[0] is not None:
                    out[(s, P)] = (best[0], best[1])
        return out

    top = dp(O, "")
    # the root holds exactly its required content (nothing is gained above the root)
    overall = [None, []]
    for (s, P), (v, sols) in top.items():
        _merge(overall, v, sols)
    if overall[0] is None:
        return None, set()
    return overall[0], {json.dumps(x) for x in overall[1]}


def valid_ordered(S, O, sol, order_ok=True, pres=None):
    """C04 validity of an ordered labelled solution (returns (bool, why)); `pres` = the prescribed root synteny, if any
    (it may hold families no leaf carries: the root must then be exactly that order)"""
    orc = R.Oracle(S)

    def go(o, x, parent):
        if isinstance(o, dict):
            if len(x) != 2 or x[0] != o["sp"] or list(x[1]) != list(o["syn"]):
                return False, "leaf species/synteny changed"
        else:
            if len(x) != 4:
                return False, "shape"
            if orc.event(x[0], x[2][0], x[3][0]) is None:
                return False, "invalid event"
            for i in (0, 1):
                ok, why = go(o[i], x[2 + i], x[1])
                if not ok:
                    return ok, why
        if x[0] not in orc.nodeset:
            return False, "unknown species"
        if parent is not None and not is_subseq(x[1], parent):
            return False, f"child synteny {x[1]} is not a subsequence of its parent's {parent}"
        return True, ""
    ok, why = go(O, sol, None)
    if not ok:
        return ok, why
    if pres is not None:
        if list(sol[1]) != list(pres):
            return False, f"root synteny {sol[1]} is not the prescribed order {list(pres)}"
        return True, ""
    fams = sorted({f for _, l in R.otree_leaves(O) for f in l["syn"]})
    if sorted(sol[1]) != fams:
        return False, f"root synteny {sol[1]} does not hold every family once"
    return True, ""


def valid_unordered(S, O, sol):
    orc = R.Oracle(S)
    gains = gain_nodes(O)

    def go(o, x, p, parent):
        if isinstance(o, dict):
            if len(x) != 2 or x[0] != o["sp"] or sorted(x[1]) != sorted(o["syn"]):
                return False, "leaf species/synteny changed"
        else:
            if len(x) != 4:
                return False, "shape"
            if orc.event(x[0], x[2][0], x[3][0]) is None:
                return False, "invalid event"
            for i in (0, 1):
                ok, why = go(o[i], x[2 + i], p + str(i), x[1])
                if not ok:
                    return ok, why
        for f in x[1]:
            g = gains.get(f)
            if g is None or not p.startswith(g):
                return False, f"family {f} occurs at {p!r}, outside the subtree of its gain node {g!r}"
            if p != g and (parent is None or f not in parent):
                return False, f"family {f} occurs at {p!r} below a parent that lacks it"
        return True, ""
    return go(O, sol, "", None)


def cost_labelled(S, sol, c, ordered):
    orc = R.Oracle(S)
    if len(sol) == 2:
        return 0
    s, P, a, b = sol
    e = orc.event(s, a[0], b[0])
    if e is None:
        return float("inf")
    k = ordered_node_losses(e, P, a[1], b[1]) if ordered else unordered_node_losses(e, P, a[1], b[1])
    return orc.node_cost(c, s, a[0], b[0]) + c["sloss"] * k + cost_labelled(S, a, c, ordered) + cost_labelled(S, b, c, ordered)
