"""Shared encoding between the implementation's objects (ete3 trees, dict mappings)
and the Coq reconciliation model (bool root paths, structural trees).

JSON-able case format
  species tree : 0 for a leaf, [l, r] for an internal node
  object tree  : {"sp": "<path>", "syn": [fam, ...]} for a leaf, [l, r] internal
  path         : string over '0'/'1' ('' = root; '0' first child, '1' second child)
  costs        : {"spe": int, "dup": int, "hgt": int | "inf", "floss": int, "sloss": int}
  solution     : "<path>" for a leaf, ["<path>", left, right] for an internal node
  labelled sol : ["<path>", [fam...]] for a leaf, ["<path>", [fam...], left, right]
"""
from __future__ import annotations

import itertools
from typing import Any, Dict, Iterable, List, Optional, Tuple

from .core import cN, cZ, cbool, clist, copt, cpair

INF = "inf"

# ---------------------------------------------------------------------------
# shapes


def all_shapes(n: int) -> List[Any]:
    """all ordered binary tree shapes with n leaves"""
    if n == 1:
        return [0]
    out = []
    for k in range(1, n):
        for l in all_shapes(k):
            for r in all_shapes(n - k):
                out.append([l, r])
    return out


def rand_shape(rng, n: int) -> Any:
    if n == 1:
        return 0
    k = rng.randint(1, n - 1)
    return [rand_shape(rng, k), rand_shape(rng, n - k)]


def shape_paths(shape, prefix="") -> List[str]:
    """pre-order list of node paths"""
    if shape == 0 or isinstance(shape, dict):
        return [prefix]
    return [prefix] + shape_paths(shape[0], prefix + "0") + shape_paths(shape[1], prefix + "1")


def shape_leaves(shape, prefix="") -> List[str]:
    if shape == 0 or isinstance(shape, dict):
        return [prefix]
    return shape_leaves(shape[0], prefix + "0") + shape_leaves(shape[1], prefix + "1")


def n_leaves(shape) -> int:
    return len(shape_leaves(shape))


def rand_otree(rng, n: int, sleaves: List[str], fams: Optional[List[int]] = None, ordered=True, p_empty=0.0):
    """random object tree with n leaves assigned to species leaves; optional syntenies"""
    def leaf():
        d = {"sp": rng.choice(sleaves), "syn": []}
        if fams:
            k = rng.randint(1, len(fams))
            sub = sorted(rng.sample(range(len(fams)), k))
            d["syn"] = [fams[i] for i in sub]
        return d

    def go(m):
        if m == 1:
            return leaf()
        k = rng.randint(1, m - 1)
        return [go(k), go(m - k)]
    return go(n)


def otree_leaves(o, prefix="") -> List[Tuple[str, dict]]:
    if isinstance(o, dict):
        return [(prefix, o)]
    return otree_leaves(o[0], prefix + "0") + otree_leaves(o[1], prefix + "1")


# ---------------------------------------------------------------------------
# Gallina literals


def enc_path(p: str) -> str:
    return clist("true" if ch == "1" else "false" for ch in p)


def enc_stree(s) -> str:
    if s == 0:
        return "SLeaf"
    return f"(SNode {enc_stree(s[0])} {enc_stree(s[1])})"


def enc_otree(o) -> str:
    if isinstance(o, dict):
        return f"(OLeaf {enc_path(o['sp'])} {clist(cN(f) for f in o.get('syn', []))})"
    return f"(ONode {enc_otree(o[0])} {enc_otree(o[1])})"


def enc_rtree(r) -> str:
    if isinstance(r, str):
        return f"(RLeaf {enc_path(r)})"
    return f"(RNode {enc_path(r[0])} {enc_rtree(r[1])} {enc_rtree(r[2])})"


def enc_ltree(t) -> str:
    if len(t) == 2:
        return f"(LLeaf {enc_path(t[0])} {clist(cN(f) for f in t[1])})"
    return f"(LNode {enc_path(t[0])} {clist(cN(f) for f in t[1])} {enc_ltree(t[2])} {enc_ltree(t[3])})"


def enc_ext(v) -> str:
    return "PInf" if v == INF else ("NInf" if v == "-inf" else f"(Fin {cZ(v)})")


def enc_costs(c: dict) -> str:
    return (f"{{| c_spe := {cZ(c['spe'])}; c_dup := {cZ(c['dup'])}; c_hgt := {enc_ext(c['hgt'])}; "
            f"c_floss := {cZ(c['floss'])}; c_sloss := {cZ(c['sloss'])} |}}")


RECON_HEADER = """From SR Require Import Base.PathB Base.Ext Model.Recon.
Fixpoint rtree_eqb (a b : rtree) : bool :=
  match a, b with
  | RLeaf s, RLeaf t => path_eqb s t
  | RNode s a1 a2, RNode t b1 b2 => path_eqb s t && rtree_eqb a1 b1 && rtree_eqb a2 b2
  | _, _ => false
  end.
Definition fams_eqb (a b : list fam) : bool := if list_eq_dec N.eq_dec a b then true else false.
Fixpoint ltree_eqb (a b : ltree) : bool :=
  match a, b with
  | LLeaf s x, LLeaf t y => path_eqb s t && fams_eqb x y
  | LNode s x a1 a2, LNode t y b1 b2 => path_eqb s t && fams_eqb x y && ltree_eqb a1 b1 && ltree_eqb a2 b2
  | _, _ => false
  end.
Definition set_eqb {A} (eqb : A -> A -> bool) (a b : list A) : bool :=
  Nat.eqb (List.length a) (List.length b) && forallb (fun x => existsb (eqb x) b) a && forallb (fun x => existsb (eqb x) a) b.
Definition opt_eqb {A} (f : A -> A -> bool) (a b : option A) := match a, b with Some x, Some y => f x y | None, None => true | _, _ => false end.
Fixpoint list_eqb {A} (f : A -> A -> bool) (a b : list A) := match a, b with [] , [] => true | x :: a', y :: b' => f x y && list_eqb f a' b' | _, _ => false end.
"""

# ---------------------------------------------------------------------------
# implementation side


def default_costs() -> dict:
    return {"spe": 0, "dup": 1, "hgt": 1, "floss": 1, "sloss": 1}


def impl_costs(c: dict):
    from superrec2.model.reconciliation import NodeEvent, EdgeEvent
    from infinity import inf
    return {
        NodeEvent.SPECIATION: c["spe"], NodeEvent.DUPLICATION: c["dup"],
        NodeEvent.HORIZONTAL_TRANSFER: inf if c["hgt"] == INF else c["hgt"],
        EdgeEvent.FULL_LOSS: c["floss"], EdgeEvent.SEGMENTAL_LOSS: c["sloss"],
    }


def build_tree(shape, prefix, tag, leaf_cb=None):
    """ete3 tree; every node named tag+path (root: tag alone + 'r')"""
    from ete3 import Tree
    t = Tree()
    t.name = f"{tag}{prefix}x"
    if shape == 0 or isinstance(shape, dict):
        if leaf_cb:
            leaf_cb(t, prefix, shape)
        return t
    t.add_child(build_tree(shape[0], prefix + "0", tag, leaf_cb))
    t.add_child(build_tree(shape[1], prefix + "1", tag, leaf_cb))
    return t


def node_paths(tree) -> Dict[Any, str]:
    out = {}

    def go(n, p):
        out[n] = p
        for i, ch in enumerate(n.children):
            go(ch, p + str(i))
    go(tree, "")
    return out


# gene families are strings in the package (GeneFamily = str); scheme 1 uses names of different lengths whose
# concatenations collide ("ab"+"c" = "a"+"b"+"c"), scheme 2 names that differ by case / look like numbers
_FAM_NAMES = {
    1: ["", "a", "b", "ab", "c", "bc", "abc", "d", "cd", "e", "de"],
    2: ["", "g", "G", "1", "11", "g1", "G1", "_", "g_", "0", "10"],
}


def fam_name(f: int, scheme: int = 0) -> str:
    if scheme and f < len(_FAM_NAMES[scheme]):
        return _FAM_NAMES[scheme][f]
    return f"f{f:02d}"


def fam_id(name: str, scheme: int = 0) -> int:
    if scheme and name in _FAM_NAMES[scheme]:
        return _FAM_NAMES[scheme].index(name)
    return int(name[1:])


class Built:
    """An implementation input built from a JSON-able case."""

    def __init__(self, S, O, costs: dict, labelled: bool = False, unordered: bool = False, blank_internal: bool = False,
                 dist_seed: Optional[int] = None, fam_scheme: int = 0, name_seed: Optional[int] = None, prime_lca: bool = False):
        from superrec2.model.reconciliation import ReconciliationInput, SuperReconciliationInput
        from superrec2.utils.trees import LowestCommonAncestor
        self.S, self.O, self.costs = S, O, costs
        self.fam_scheme = fam_scheme
        self.stree = build_tree(S, "", "S")
        self.spath = node_paths(self.stree)
        self.snode = {p: n for n, p in self.spath.items()}
        leafmap, syn = {}, {}

        def cb(node, prefix, leaf):
            leafmap[node] = self.snode[leaf["sp"]]
            names = [fam_name(f, fam_scheme) for f in leaf.get("syn", [])]
            syn[node] = (set(names) if unordered else names)
        self.otree = build_tree(O, "", "O", cb)
        if blank_internal:
            # ancestors without names, as when a Newick string gives leaf names only
            for t in (self.stree, self.otree):
                for n in t.traverse():
                    if not n.is_leaf():
                        n.name = ""
        if name_seed is not None:
            # node names carry no meaning for the algorithms: any pairwise distinct names will do, including names
            # that look generated (O3, S1), differ by case only, or are digits
            import random as _random
            rn = _random.Random(name_seed)
            pool = ["O0", "O1", "O2", "O3", "S0", "S1", "S2", "S3", "a", "A", "b", "B", "x", "X", "1", "2", "10", "01", "n_1", "N_1",
                    "root", "Root", "NoName0", "g", "G", "sp", "SP", "q7", "Q7", "zz", "ZZ", "w", "W", "k_2", "K_2", "m", "M", "t5", "T5", "u", "U",
                    "v", "V", "y", "Y", "r0", "R0", "e", "E", "h", "H", "i", "I", "j", "J", "l", "L", "o", "p", "P"]
            for t in (self.stree, self.otree):
                nodes = list(t.traverse())
                names = rn.sample(pool, len(nodes)) if len(nodes) <= len(pool) else [f"n{i}" for i in range(len(nodes))]
                for n, nm in zip(nodes, names):
                    n.name = nm
        if dist_seed is not None:
            # branch lengths (and supports) are legal decorations of the trees and mean nothing to reconciliation
            import random as _random
            rr = _random.Random(dist_seed)
            for t in (self.stree, self.otree):
                for n in t.traverse():
                    n.dist = rr.choice([0.0, 0.12, 0.31, 0.5, 2.0, 3.7, 10.0])
                    n.support = rr.choice([0.0, 0.5, 1.0, 100.0])
        self.opath = node_paths(self.otree)
        self.onode = {p: n for n, p in self.opath.items()}
        if prime_lca:
            # history independence of the LCA structure: one is first built while the children of some species nodes
            # are in the other order; the children are put back and the structure that is used gets built
            flipped = [n for n in self.stree.traverse() if len(n.children) == 2][::2]
            for n in flipped:
                n.children.reverse()
            try:
                LowestCommonAncestor(self.stree)
            except Exception:  # noqa: BLE001
                pass
            for n in flipped:
                n.children.reverse()
        self.lca = LowestCommonAncestor(self.stree)
        if labelled:
            self.input = SuperReconciliationInput(self.otree, self.lca, leafmap, impl_costs(costs), syn)
        else:
            self.input = ReconciliationInput(self.otree, self.lca, leafmap, impl_costs(costs))

    # -- canonical forms of outputs -------------------------------------------------
    def canon(self, out, node=None):
        """ReconciliationOutput -> solution (species paths; trees may be copies: map by name)"""
        otree = out.input.object_tree
        by_id = node_paths(out.input.species_lca.tree)        # node object -> path (works without names)
        spath = {n.name: p for n, p in by_id.items()}
        labelled = hasattr(out, "syntenies")

        def go(n):
            sp = out.object_species[n]
            s = by_id[sp] if sp in by_id else spath[sp.name]
            if labelled:
                y = [fam_id(f, self.fam_scheme) for f in out.syntenies[n]]
                y = sorted(y) if not out.ordered else list(y)
                if n.is_leaf():
                    return [s, y]
                return [s, y, go(n.children[0]), go(n.children[1])]
            if n.is_leaf():
                return s
            return [s, go(n.children[0]), go(n.children[1])]
        return go(otree)

    def output_of(self, sol, labelled=False, ordered=True):
        """solution -> ReconciliationOutput / SuperReconciliationOutput on this input"""
        from superrec2.model.reconciliation import ReconciliationOutput, SuperReconciliationOutput
        mapping, syn = {}, {}

        def go(r, p):
            n = self.onode[p]
            if isinstance(r, str):
                mapping[n] = self.snode[r]
                return
            mapping[n] = self.snode[r[0]]
            if labelled:
                syn[n] = [fam_name(f, self.fam_scheme) for f in r[1]] if ordered else {fam_name(f, self.fam_scheme) for f in r[1]}
                if len(r) == 4:
                    go(r[2], p + "0"); go(r[3], p + "1")
            else:
                go(r[1], p + "0"); go(r[2], p + "1")
        go(sol, "")
        if labelled:
            return SuperReconciliationOutput(self.input, mapping, syn, ordered)
        return ReconciliationOutput(self.input, mapping)


def case_of_output(out, fam_code=None):
    """An output of the package (with its OWN, binary, input: e.g. one refinement of a polytomous input) in the
    case format: (S shape, O with leaf species paths and syntenies, solution).  Families are numbered by
    `fam_code` (default: position in the sorted list of the family names on the leaves)."""
    inp = out.input
    st, ot = inp.species_lca.tree, inp.object_tree
    spath = node_paths(st)
    labelled = hasattr(out, "syntenies")
    if labelled and fam_code is None:
        names = sorted({f for n in ot.iter_leaves() for f in inp.leaf_syntenies[n]})
        fam_code = {f: i + 1 for i, f in enumerate(names)}

    def sshape(n):
        if n.is_leaf():
            return 0
        if len(n.children) != 2:
            raise ValueError("species tree of an output is not binary")
        return [sshape(n.children[0]), sshape(n.children[1])]

    def syn_of(y, ordered):
        y = [fam_code[f] for f in y]
        return list(y) if ordered else sorted(y)

    def oshape(n):
        if n.is_leaf():
            d = {"sp": spath[inp.leaf_object_species[n]], "syn": []}
            if labelled:
                d["syn"] = syn_of(inp.leaf_syntenies[n], out.ordered)
            return d
        if len(n.children) != 2:
            raise ValueError("object tree of an output is not binary")
        return [oshape(n.children[0]), oshape(n.children[1])]

    def sol(n):
        s = spath[out.object_species[n]]
        if labelled:
            y = syn_of(out.syntenies[n], out.ordered)
            return [s, y] if n.is_leaf() else [s, y, sol(n.children[0]), sol(n.children[1])]
        return s if n.is_leaf() else [s, sol(n.children[0]), sol(n.children[1])]

    return {"S": sshape(st), "O": oshape(ot)}, sol(ot)


def prime_topology(B, solve):
    """History independence, tree shape.  Two disjoint subtrees of the object tree exchange their places IN PLACE,
    the input object is solved once (result discarded), and the subtrees are put back exactly where they were
    (same parents, same child positions).  The run observed afterwards must not remember the first one."""
    nodes = [n for n in B.otree.traverse("preorder") if n.up is not None]
    for i in range(len(nodes) - 1, 0, -1):
        y = nodes[i]
        inside_y = {id(n) for n in y.traverse()}
        for x in nodes[:i]:
            if id(x) in inside_y or id(y) in {id(n) for n in x.traverse()} or x.up is y.up:
                continue
            px, py = x.up, y.up
            ix, iy = px.children.index(x), py.children.index(y)
            px.children[ix], py.children[iy] = y, x
            x.up, y.up = py, px
            try:
                solve(B.input)
            except Exception:  # noqa: BLE001 - the priming run is not judged
                pass
            px.children[ix], py.children[iy] = x, y
            x.up, y.up = px, py
            return True
    return False


def primed(case, solve, **kw):
    """History independence.  When the case carries another cost vector under "prime", the input object
    is first built and solved with THOSE costs, then its cost dictionary is edited in place to the case's
    own costs (the way the package's tests reuse an input); what the package remembers from the first
    solve must not leak into the run that is observed."""
    kw.setdefault("blank_internal", bool(case.get("blank", False)))
    kw.setdefault("dist_seed", case.get("dist"))
    kw.setdefault("fam_scheme", case.get("fnames", 0))
    kw.setdefault("name_seed", case.get("names"))
    kw.setdefault("prime_lca", bool(case.get("prime_lca", False)))
    if case.get("prime") == "topology":
        B = Built(case["S"], case["O"], case["costs"], **kw)
        prime_topology(B, solve)
        return B
    if not case.get("prime"):
        return Built(case["S"], case["O"], case["costs"], **kw)
    B = Built(case["S"], case["O"], case["prime"], **kw)
    try:
        solve(B.input)
    except Exception:  # noqa: BLE001 - the priming run is not judged
        pass
    B.input.costs.clear()
    B.input.costs.update(impl_costs(case["costs"]))
    B.costs = case["costs"]
    return B


def ext_of(v):
    from infinity import inf
    if v == inf:
        return INF
    if v == -inf:
        return "-inf"
    return int(v) if v == int(v) else v          # fractional unit costs (scaled vectors) give fractional totals


# ---------------------------------------------------------------------------
# independent oracle (parent chains only; no package code)


class Oracle:
    def __init__(self, S):
        self.nodes = shape_paths(S)
        self.nodeset = set(self.nodes)

    @staticmethod
    def anc(a: str, b: str) -> bool:
        return b.startswith(a)

    @staticmethod
    def lca(a: str, b: str) -> str:
        i = 0
        while i < len(a) and i < len(b) and a[i] == b[i]:
            i += 1
        return a[:i]

    def dist(self, a, b):
        return len(a) + len(b) - 2 * len(self.lca(a, b))

    def event(self, s, l, r):
        anc = self.anc
        if (anc(l, s) and l != s) or (anc(r, s) and r != s):
            return None
        if anc(s, l) and anc(s, r):
            if self.lca(l, r) == s and not anc(l, r) and not anc(r, l):
                return "S"
            return "D"
        if anc(s, l):
            return "TL"
        if anc(s, r):
            return "TR"
        return None

    def node_cost(self, c, s, l, r):
        e = self.event(s, l, r)
        if e is None:
            return None
        if e == "S":
            return c["spe"] + c["floss"] * (self.dist(s, l) - 1 + self.dist(s, r) - 1)
        if e == "D":
            return c["dup"] + c["floss"] * (self.dist(s, l) + self.dist(s, r))
        h = float("inf") if c["hgt"] == INF else c["hgt"]
        return h + c["floss"] * (self.dist(s, l) if e == "TL" else self.dist(s, r))

    def all_recs(self, O):
        """[(solution, cost-as-float)]; cost under the documented event model"""
        raise NotImplementedError

    def best(self, O, c):
        """DP over (node, species) on plain python; returns (min cost, set of optimal solutions as json strings)"""
        import json
        nodes = self.nodes

        def go(o):
            # returns dict species -> (cost, [solutions])
            if isinstance(o, dict):
                return {o["sp"]: (0, [o["sp"]])}
            A, B = go(o[0]), go(o[1])
            out = {}
            for s in nodes:
                best, sols = None, []
                for l, (ca, sa) in A.items():
                    for r, (cb, sb) in B.items():
                        k = self.node_cost(c, s, l, r)
                        if k is None:
                            continue
                        v = k + ca + cb
                        if best is None or v < best:
                            best, sols = v, []
                        if v == best:
                            sols.extend([s, x, y] for x in sa for y in sb)
                if best is not None:
                    out[s] = (best, sols)
            return out
        top = go(O)
        if not top:
            return None, set()
        m = min(v for v, _ in top.values())
        sols = {json.dumps(x) for v, xs in top.values() if v == m for x in xs}
        return m, sols

    def enumerate_valid(self, O):
        """every valid reconciliation of O (solutions), by brute force"""
        if isinstance(O, dict):
            return [O["sp"]]
        out = []
        for a in self.enumerate_valid(O[0]):
            for b in self.enumerate_valid(O[1]):
                l = a if isinstance(a, str) else a[0]
                r = b if isinstance(b, str) else b[0]
                for s in self.nodes:
                    if self.event(s, l, r) is not None:
                        out.append([s, a, b])
        return out

    def cost_of(self, sol, c):
        if isinstance(sol, str):
            return 0
        s, a, b = sol
        l = a if isinstance(a, str) else a[0]
        r = b if isinstance(b, str) else b[0]
        k = self.node_cost(c, s, l, r)
        if k is None:
            return float("inf")
        return k + self.cost_of(a, c) + self.cost_of(b, c)


def coherent(c: dict, plain: bool = False) -> bool:
    sl = 0 if plain else c["sloss"]
    return c["spe"] + 2 * sl <= c["dup"] + 2 * c["floss"]


def coherence_signature(f) -> bool:
    """what the known finding F-COHERENCE looks like on a generated case: the property's oracle rejects the answer BECAUSE a
    returned cost is not the minimum (or the optimal set differs as a consequence); a crash, an invalid solution, duplicates or
    solutions returned although none exists are never covered by it"""
    d = f.detail or ""
    return f.oracle_ok is False and any(t in d for t in ("the minimum is", "the minimum over all labellings is", "the optimal set has"))


def ucoherent(c: dict) -> bool:
    """the region the UNORDERED solvers' theorems need (wider than `coherent`): spe + sloss <= dup + 2 floss"""
    return c["spe"] + c["sloss"] <= c["dup"] + 2 * c["floss"]


def rand_costs(rng, plain=False, coherent_only=True, hi=3) -> dict:
    while True:
        c = {"spe": rng.randint(0, hi), "dup": rng.randint(0, hi),
             "hgt": rng.choice([0, 1, 2, 3, INF, INF]) if rng.random() < 0.9 else rng.randint(0, 6),
             "floss": rng.randint(0, hi), "sloss": rng.randint(0, hi)}
        if plain:
            c["sloss"] = 1
        if not coherent_only or coherent(c, plain):
            return c


# ---------------------------------------------------------------------------
# witnesses written with names (known_findings.jsonl) -> case format


def _parse_newick(nw: str):
    nw = nw.strip().rstrip(";")
    pos = [0]

    def rd():
        ch = []
        if nw[pos[0]] == "(":
            pos[0] += 1
            while True:
                ch.append(rd())
                if nw[pos[0]] == ",":
                    pos[0] += 1
                    continue
                if nw[pos[0]] == ")":
                    pos[0] += 1
                    break
        j = pos[0]
        while j < len(nw) and nw[j] not in ",()":
            j += 1
        name = nw[pos[0]:j]
        pos[0] = j
        return (name, ch)
    return rd()


def case_from_names(w: dict) -> dict:
    """{"object": newick, "species": newick, "leafmap": {obj leaf: species leaf}, "syntenies": {obj leaf: [names]}, "costs"} -> case"""
    if "S" in w:
        return w
    sp = _parse_newick(w["species"])
    spaths = {}

    def sshape(t, p):
        spaths[t[0]] = p
        if not t[1]:
            return 0
        return [sshape(t[1][0], p + "0"), sshape(t[1][1], p + "1")]
    S = sshape(sp, "")
    fams = {}

    def fam(x):
        return fams.setdefault(x, len(fams) + 1)

    def oshape(t):
        if not t[1]:
            return {"sp": spaths[w["leafmap"][t[0]]], "syn": [fam(x) for x in w.get("syntenies", {}).get(t[0], [])]}
        return [oshape(t[1][0]), oshape(t[1][1])]
    return {"S": S, "O": oshape(_parse_newick(w["object"])), "costs": w["costs"]}
