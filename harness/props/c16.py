"""C16 — a dynamic-programming entry holds the optimum and the tags of optimal candidates."""
from __future__ import annotations

import itertools

from ..core import Batch, cN, cZ, cbool, clist, copt, cpair, cnat

ID = "C16"
LEVEL = "proof"
PROP_FILE = "Properties/C16.v"
PROOF_FILES = ["Gen/TableGen.v", "Proofs/TableGenProofs.v", "Gen/EntryGen.v", "Proofs/EntryGenProofs.v", "Proofs/EntryExtraProofs.v", "Proofs/EntryProofs.v", "Model/Entry.v", "Base/Ext.v"]
TRUSTED = [
    "translator translator/pyfun.py + translator/table_gen.py: Table, TableProxy, EntryProxy and _generate_table (dictionary dimensions) are translated into Gen/TableGen.v on every run and proved to read and update like the table model",
    "translator translator/pyfun.py + the type table in translator/entry_gen.py: Entry.__init__ (default path), update, combine, is_infinite, value, infos are translated statement by statement into Gen/EntryGen.v on every run and proved equal to Model/Entry.v (values as ext, a tag = a truthy info = Some t, a Python set = duplicate-free list in insertion order, combinator pure and total)","model Model/Entry.v of Entry/EntryProxy/Table (utils/dynamic_programming.py): tag set as duplicate-free list, values in Z + {-inf, +inf}"]
ASSUMES = ["infinity.inf compares and adds like an extended integer", "falsy info tags (None) are the only untagged candidates used; hashable tags compare by equality"]
RULE = ("update histories = sequences of (value, tag) candidates split into batches, for the 2x3 policies, on standalone entries and table cells; "
        "exhaustive over values {0,1,2} x tags {none,a,b} up to the tier's length with every batching, plus random longer histories with +-inf; "
        "non-trivial = at least two candidates of which two tie for the optimum or an improving candidate follows a tagged one")
OPEN_GOALS: list = []
TECHNIQUE = "translator tie: class Entry is regenerated into Gallina on every run and proved equal to the model; Coq proof by induction over update histories (case lemma per update step) of value/tag laws; model tied to Entry/Table by exhaustive short histories + random long ones evaluated with vm_compute"
LEVEL_TEXT = ("Table / TableProxy / EntryProxy (dictionary dimensions) are also translated from the source on every run and proved equal to the table model (C16_gen_table_*, C16_table_*). Reading of the statement made explicit by theorems: a tag is a TRUTHY info (a candidate whose info is falsy is untagged: C16_untagged_candidate/_history); combine pairs retained tags, so under NONE it returns the infinite default (C16_combine_no_tags); a table cell ignores batches made only of infinite candidates. Class Entry itself is translated from the source on every run and proved equal to the model (C16_gen_entry_*). Machine-checked for histories of any length: value = optimum of all candidates; tags under ALL = exactly the tags of optimal candidates (duplicate-free), "
              "under ANY one tag of an optimal candidate iff one is tagged, under NONE none; batching irrelevant; combine = optimum/arg-opt over pairs of retained tags; "
              "a table cell reads as the entry fed the finite-bearing batches addressed to it, default when there are none. "
              "Model compared with the implementation on every history up to length 3 (quick) / 5 (thorough: the length the property names) over {0,1,2}x{none,a,b}, all batchings, 6 policies, "
              "standalone and in 1-3 dimensional tables, and on random histories up to length 40 with infinite values.")
LEVEL_NOTE = ("Trusted: Coq kernel; the hand-written model (correspondence = differential testing). The theorems are about the repaired Entry.update (fix D1); "
              "the pre-fix loop is refuted in C16_stale_tags_refuted. EntryProxy skips batches with only infinite candidates: stated as such (relevant), not hidden.")

HEADER = """From SR Require Import Base.Ext Model.Entry.
Definition ext_of (x : option Z * bool) : ext := match x with (Some z, _) => Fin z | (None, true) => PInf | (None, false) => NInf end.
Definition cand := (option Z * bool * option nat)%type.
Definition cv (c : cand) : ext * option nat := let '(v, t) := c in (ext_of v, t).
Definition mpol (b : bool) := if b then MIN else MAX.
Definition rpol (n : nat) := match n with 0%nat => RNONE | 1%nat => RANY | _ => RALL end.
Definition show (e : entry nat) : ext * list nat := (val e, tags e).
Definition set_eqb (a b : list nat) : bool :=
  Nat.eqb (length a) (length b) && forallb (fun x => existsb (Nat.eqb x) b) a && forallb (fun x => existsb (Nat.eqb x) a) b.
Definition show_eqb (a b : ext * list nat) : bool := ext_eqb (fst a) (fst b) && set_eqb (snd a) (snd b).
Definition run_entry (x : bool * nat * list (list cand)) : ext * list nat :=
  let '(m, r, bs) := x in
  show (fold_left (fun e b => update Nat.eqb (mpol m) (rpol r) e (map cv b)) bs (default_entry (mpol m))).
Definition comb_f (w : list (nat * nat * Z)) (v1 v2 : ext) (a b : nat) : ext * option nat :=
  let extra := match find (fun x => Nat.eqb (fst (fst x)) a && Nat.eqb (snd (fst x)) b) w with Some (_, z) => z | None => 0%Z end in
  (ext_add (ext_add v1 v2) (Fin extra), Some (a * 10 + b)%nat).
Definition run_combine (x : bool * nat * nat * list cand * list cand * list (nat * nat * Z)) : ext * list nat :=
  let '(m, r, r2, h1, h2, w) := x in
  let e1 := update Nat.eqb (mpol m) (rpol r) (default_entry (mpol m)) (map cv h1) in
  let e2 := update Nat.eqb (mpol m) (rpol r2) (default_entry (mpol m)) (map cv h2) in
  show (combine Nat.eqb (mpol m) (rpol r) e1 e2 (comb_f w (val e1) (val e2))).
(* result kept under ANY while the second operand holds ALL its tags: WHICH optimal pair is kept depends on the iteration order of
   a Python set of tags, which the source does not determine -- the value and the number of tags are compared, and the oracle
   judges the tag itself ("one of the optimal pairs") *)
Definition run_combine_c (x : bool * nat * nat * list cand * list cand * list (nat * nat * Z)) : ext * list nat :=
  let '(m, r, r2, h1, h2, w) := x in
  let out := run_combine x in
  if Nat.eqb r 1 && Nat.eqb r2 2 then (fst out, [length (snd out)]) else out.
Definition run_table (x : bool * nat * list (option nat) * list (list nat * list cand) * list (list nat))
  : option (list (option (ext * list nat))) :=
  let '(m, r, d, ops, probes) := x in
  match run_writes Nat.eqb d (mpol m) (rpol r) [] (map (fun op => (fst op, map cv (snd op))) ops) with
  | None => None
  | Some tb => Some (map (fun k => if key_ok d k then Some (show (read (mpol m) tb k)) else None) probes)
  end.
Definition opt_eqb {A} (f : A -> A -> bool) (a b : option A) := match a, b with Some x, Some y => f x y | None, None => true | _, _ => false end.
Fixpoint list_eqb {A} (f : A -> A -> bool) (a b : list A) := match a, b with [] , [] => true | x :: a', y :: b' => f x y && list_eqb f a' b' | _, _ => false end.
"""

INF = "inf"
NINF = "-inf"
TAGS = {None: None, "a": 1, "b": 2, "c": 3, "d": 4}


def _dp():
    from superrec2.utils import dynamic_programming as D
    from infinity import inf
    return D, inf


def _val(v, inf):
    return inf if v == INF else (-inf if v == NINF else v)


def _unval(v, inf):
    return INF if v == inf else (NINF if v == -inf else int(v))


def enc_ext(v):
    if v == INF:
        return "(None, true)"
    if v == NINF:
        return "(None, false)"
    return f"(Some {cZ(v)}, true)"


def enc_extv(v):
    return "PInf" if v == INF else ("NInf" if v == NINF else f"(Fin {cZ(v)})")


def enc_cand(c):
    return cpair(enc_ext(c[0]), copt(None if c[1] is None else cnat(TAGS[c[1]])))


def enc_show(r):
    return cpair(enc_extv(r[0]), clist(cnat(t) for t in r[1]))


def batchings(h):
    n = len(h)
    if n == 0:
        yield []
        return
    for cuts in range(1 << (n - 1)):
        out, cur = [], [h[0]]
        for i in range(1, n):
            if cuts >> (i - 1) & 1:
                out.append(cur); cur = []
            cur.append(h[i])
        out.append(cur)
        yield out


def _oracle_entry(mp_min, rp, flat, r, start=None):
    """Property text: value = optimum of candidates; tags per policy."""
    fl = lambda v: float("inf") if v == INF else (float("-inf") if v == NINF else v)
    vals = [fl(c[0]) for c in flat]
    init = float("inf") if mp_min else float("-inf")
    opt = min(vals + [init]) if mp_min else max(vals + [init])
    got = fl(r[0])
    if got != opt:
        return False, f"value should be {opt}, got {got}"
    opt_tags = sorted({TAGS[c[1]] for c in flat if fl(c[0]) == opt and c[1] is not None})
    if rp == 2 and sorted(r[1]) != opt_tags:
        return False, f"'all' tags should be {opt_tags}, got {r[1]}"
    if rp == 1 and not ((not opt_tags and r[1] == []) or (len(r[1]) == 1 and r[1][0] in opt_tags)):
        return False, f"'any' should keep exactly one of {opt_tags}, got {r[1]}"
    if rp == 0 and r[1] != []:
        return False, f"'none' should keep no tag, got {r[1]}"
    return True, "value and tags are those the property demands"


def pre_build(ctx):
    from translator import table_gen
    from .. import core
    changed = False
    changed = table_gen.regenerate(core.REPO) or changed
    from translator import entry_gen
    from .. import core
    changed = entry_gen.regenerate(core.REPO)
    ctx.notes.append("Gen/EntryGen.v (class Entry of utils/dynamic_programming.py) " + ("regenerated (content changed)" if changed else "regenerated: unchanged"))


def batches(ctx):
    D, inf = _dp()
    rng = ctx.rng
    MP = {True: D.MergePolicy.MIN, False: D.MergePolicy.MAX}
    RP = {0: D.RetentionPolicy.NONE, 1: D.RetentionPolicy.ANY, 2: D.RetentionPolicy.ALL}
    inv = {v: k for k, v in TAGS.items()}

    def show_entry(e):
        tags = sorted(TAGS[t] for t in e.infos())
        info = e.info()
        assert (info is None and not tags) or TAGS[info] in tags, "info() not in infos()"
        assert len(e) == len(tags)
        return [_unval(e.value(), inf), tags]

    # ---- 1. standalone entries ------------------------------------------------
    cands = [(v, t) for v in (0, 1, 2) for t in (None, "a", "b")]
    L = 3 if ctx.quick() else 5   # the quantifier of the property: histories up to length 5 (exhaustive in the thorough tier)
    cases = []
    for n in range(L + 1):
        for h in itertools.product(cands, repeat=n):
            hs = [list(c) for c in h]
            for m in (True, False):
                for r in (0, 1, 2):
                    if n <= 3:
                        for b in batchings(hs):
                            cases.append({"min": m, "ret": r, "batches": b})
                    else:
                        cases.append({"min": m, "ret": r, "batches": rng.choice(list(batchings(hs)))})
    for _ in range(3000 if ctx.quick() else 30000):
        n = rng.randint(2, 40)
        pool = [0, 1, 2, 3, -1, -2, -3, INF, NINF] if rng.random() < 0.5 else [0, 1]
        h = [[rng.choice(pool), rng.choice([None, "a", "b", "c", "d"])] for _ in range(n)]
        b = rng.choice(list(batchings(h))) if n <= 8 else [h[:n // 2], h[n // 2:]]
        cases.append({"min": rng.random() < 0.5, "ret": rng.randrange(3), "batches": b})

    def impl_entry(c):
        e = D.Entry(MP[c["min"]], RP[c["ret"]])
        for b in c["batches"]:
            e.update(*[D.Candidate(_val(v, inf), t) for v, t in b])
        return show_entry(e)

    def nontrivial(c, r):
        flat = [x for b in c["batches"] for x in b]
        if len(flat) < 2:
            return False
        vals = [x[0] for x in flat]
        return len(set(vals)) < len(vals) or any(x[1] is not None for x in flat[:-1])

    ctx.dist["entry"] = {"cases": len(cases), "with_infinite": sum(1 for c in cases if any(x[0] in (INF, NINF) for b in c["batches"] for x in b))}
    yield Batch(
        name="entry", header=HEADER, run="run_entry", eqb="show_eqb",
        ty_in="bool * nat * list (list cand)", ty_out="ext * list nat",
        cases=cases, impl=impl_entry,
        enc_in=lambda c: cpair(cbool(c["min"]), cnat(c["ret"]), clist(clist(enc_cand(x) for x in b) for b in c["batches"])),
        enc_out=lambda c, r: enc_show(r),
        oracle=lambda c, r: _oracle_entry(c["min"], c["ret"], [x for b in c["batches"] for x in b], r),
        nontrivial=nontrivial, exhaustive=False, shard=2500,
        describe=f"all histories up to length {L} over {{0,1,2}}x{{none,a,b}} with every batching (length<=3) x 6 policies; random histories to length 40 with +-inf",
    )

    # ---- 2. combine --------------------------------------------------------------
    ccases = []
    for _ in range(1500 if ctx.quick() else 15000):
        mk = lambda: [[rng.choice([0, 1, 2, INF]), rng.choice([None, "a", "b", "c"])] for _ in range(rng.randint(0, 5))]
        w = [[a, b, rng.choice([0, 0, 1, -1, 2])] for a in (1, 2, 3) for b in (1, 2, 3)]
        ccases.append({"min": rng.random() < 0.7, "ret": rng.choice([1, 2, 2, 2, 0]), "h1": mk(), "h2": mk(), "w": w,
                       "hold": [rng.choice([0, 0, 1, 2]), rng.choice([0, 0, 1, 2])]})
        # the other operand may come with another retention policy (an ANY entry combined with an ALL one)
        ccases[-1]["ret2"] = ccases[-1]["ret"] if rng.random() < 0.6 else rng.choice([0, 1, 2])

    def operand(c, hist, kind, ret=None):
        """an operand of combine: a standalone Entry (0), or the cell of a list (1) / dict (2) table reached through
        Table[...] (an EntryProxy).  A cell that only ever received infinite candidates is never written, so the cell
        holders are used only when the history holds a finite value (one batch: the cell then reads as the entry)."""
        cands = [D.Candidate(_val(v, inf), t) for v, t in hist]
        if kind and any(v not in (INF, NINF) for v, _ in hist):
            T = D.Table((D.ListDimension(3),) if kind == 1 else (D.DictDimension(),), MP[c["min"]], RP[c["ret"] if ret is None else ret])
            cell = T[1] if kind == 1 else T["k"]
            cell.update(*cands)
            return T[1] if kind == 1 else T["k"]
        e = D.Entry(MP[c["min"]], RP[c["ret"] if ret is None else ret])
        e.update(*cands)
        return e

    def impl_combine(c):
        hold = c.get("hold", [0, 0])
        e1 = operand(c, c["h1"], hold[0])
        e2 = operand(c, c["h2"], hold[1], c.get("ret2", c["ret"]))
        w = {(a, b): z for a, b, z in c["w"]}
        r = e1.combine(e2, lambda l, r_: D.Candidate(l.value + r_.value + w[(TAGS[l.info], TAGS[r_.info])], (l.info, r_.info)))
        tags = sorted(TAGS[a] * 10 + TAGS[b] for a, b in r.infos())
        return [_unval(r.value(), inf), tags]

    def oracle_combine(c, r):
        # optimum over pairs of *retained* tags of the two operands (computed from the operands the implementation built)
        e1 = D.Entry(MP[c["min"]], RP[c["ret"]]); e1.update(*[D.Candidate(_val(v, inf), t) for v, t in c["h1"]])
        e2 = D.Entry(MP[c["min"]], RP[c.get("ret2", c["ret"])]); e2.update(*[D.Candidate(_val(v, inf), t) for v, t in c["h2"]])
        w = {(a, b): z for a, b, z in c["w"]}
        pairs = [[_unval(e1.value() + e2.value() + w[(TAGS[a], TAGS[b])], inf), None] for a in e1.infos() for b in e2.infos()]
        tagged = []
        for a in sorted(e1.infos()):
            for b in sorted(e2.infos()):
                tagged.append((_unval(e1.value() + e2.value() + w[(TAGS[a], TAGS[b])], inf), TAGS[a] * 10 + TAGS[b]))
        fl = lambda v: float("inf") if v == INF else (float("-inf") if v == NINF else v)
        init = float("inf") if c["min"] else float("-inf")
        vals = [fl(v) for v, _ in tagged] + [init]
        opt = min(vals) if c["min"] else max(vals)
        if fl(r[0]) != opt:
            return False, f"combined value should be {opt}, got {r[0]}"
        opt_tags = sorted(t for v, t in tagged if fl(v) == opt)
        if c["ret"] == 2 and sorted(r[1]) != opt_tags:
            return False, f"combined 'all' tags should be {opt_tags}, got {r[1]}"
        if c["ret"] == 1 and not ((not opt_tags and not r[1]) or (len(r[1]) == 1 and r[1][0] in opt_tags)):
            return False, f"combined 'any' tag should be one of {opt_tags}, got {r[1]}"
        return True, "combination is the optimum over pairs"

    yield Batch(
        name="combine", header=HEADER, run="run_combine_c", eqb="show_eqb",
        ty_in="bool * nat * nat * list cand * list cand * list (nat * nat * Z)", ty_out="ext * list nat",
        cases=ccases, impl=impl_combine,
        enc_in=lambda c: cpair(cbool(c["min"]), cnat(c["ret"]), cnat(c.get("ret2", c["ret"])), clist(enc_cand(x) for x in c["h1"]), clist(enc_cand(x) for x in c["h2"]),
                               clist(cpair(cnat(a), cnat(b), cZ(z)) for a, b, z in c["w"])),
        enc_out=lambda c, r: enc_show([r[0], [len(r[1])]] if (c["ret"] == 1 and c.get("ret2", c["ret"]) == 2) else r),
        oracle=oracle_combine,
        nontrivial=lambda c, r: len(r[1]) >= 1 and len(c["h1"]) >= 2 and len(c["h2"]) >= 2,
        exhaustive=False, shard=800,
        describe="random pairs of entries combined with a weighted combinator producing ties",
    )

    # ---- 3. tables -----------------------------------------------------------------
    tcases = []
    # exhaustive short histories on a single cell of 1-3 dimensional tables, plus an untouched probe
    shapes = [[3], [None], [2, None], [None, 2], [None, None, 2], [2, 2, None]]
    for d in shapes:
        k0 = [1 if x is not None else 7 for x in d]
        k1 = [0 if x is not None else 9 for x in d]
        for n in range(0, 3 if ctx.quick() else 4):
            for h in itertools.product(cands, repeat=n):
                for m, r in ((True, 2), (True, 1), (False, 2), (True, 0)):
                    for b in batchings([list(c) for c in h]):
                        tcases.append({"min": m, "ret": r, "dims": d, "ops": [[k0, bb] for bb in b], "probes": [k0, k1]})
    for _ in range(1500 if ctx.quick() else 20000):
        d = rng.choice(shapes)
        def rk(bad_ok=True):
            return [rng.randrange(x + (1 if bad_ok and rng.random() < 0.03 else 0)) if x is not None else rng.randrange(4) for x in d]
        ops = []
        for _ in range(rng.randint(0, 8)):
            b = [[rng.choice([0, 1, 2, 3, INF, INF, NINF]), rng.choice([None, "a", "b", "c"])] for _ in range(rng.randint(0, 3))]
            # an out-of-range list index raises IndexError only once the proxy indexes the table, i.e. when
            # some candidate is finite (the model's rule); keys of all-infinite batches are kept in range
            ops.append([rk(bad_ok=any(v not in (INF, NINF) for v, _ in b)), b])
        tcases.append({"min": rng.random() < 0.6, "ret": rng.randrange(3), "dims": d, "ops": ops, "probes": [rk() for _ in range(4)]})

    def impl_table(c):
        dims = [D.ListDimension(x) if x is not None else D.DictDimension() for x in c["dims"]]
        t = D.Table(dims, MP[c["min"]], RP[c["ret"]])

        def cell(k):
            p = t
            for i in k:
                p = p[i]
            return p
        try:
            for k, b in c["ops"]:
                if len(b) == 1 and (k[0] + len(b)) % 2 == 0:
                    p = t
                    for i in k[:-1]:
                        p = p[i]
                    p[k[-1]] = D.Candidate(_val(b[0][0], inf), b[0][1])   # __setitem__ path
                else:
                    cell(k).update(*[D.Candidate(_val(v, inf), tg) for v, tg in b])
        except IndexError:
            return None
        out = []
        for k in c["probes"]:
            try:
                e = cell(k)
                out.append(show_entry(e) + [e.is_infinite()])
            except IndexError:
                out.append(None)
        return out

    def enc_table_out(c, r):
        if r is None:
            return "None"
        return copt(clist(copt(None if x is None else enc_show(x)) for x in r))

    def oracle_table(c, r):
        if r is None:
            return True, "index outside a list dimension: outside the property's domain"
        for k, x in zip(c["probes"], r):
            if x is None:
                continue
            relevant = [b for kk, b in c["ops"] if kk == k]
            if any(v in (INF, NINF) for b in relevant for v, _ in b):
                continue  # infinite candidates offered to a table cell: outside the property's domain
            ok, why = _oracle_entry(c["min"], c["ret"], [cand for b in relevant for cand in b], x)
            if not ok:
                return False, f"cell {k}: {why}"
        return True, "cells read as the property demands"

    yield Batch(
        name="table", header=HEADER, run="run_table",
        eqb="opt_eqb (list_eqb (opt_eqb show_eqb))",
        ty_in="bool * nat * list (option nat) * list (list nat * list cand) * list (list nat)",
        ty_out="option (list (option (ext * list nat)))",
        cases=tcases, impl=impl_table,
        enc_in=lambda c: cpair(cbool(c["min"]), cnat(c["ret"]), clist(copt(None if x is None else cnat(x)) for x in c["dims"]),
                               clist(cpair(clist(map(cnat, k)), clist(enc_cand(x) for x in b)) for k, b in c["ops"]),
                               clist(clist(map(cnat, k)) for k in c["probes"])),
        enc_out=enc_table_out,
        oracle=oracle_table,
        nontrivial=lambda c, r: r is not None and len(c["ops"]) >= 2,
        exhaustive=False, shard=1500,
        describe="single-cell histories (all, short) in 1-3 dimensional list/dict tables with an untouched probe; random multi-cell histories incl. out-of-range indexes and infinite candidates",
    )
