"""C03 — unordered super-reconciliation (SuperDTL) returns a minimum-cost solution."""
from __future__ import annotations

import json

from ..core import Batch, cN, cZ, cbool, clist, copt, cpair
from .. import recon as R
from .. import labelled as LB

ID = "C03"
LEVEL = "proof"
PROP_FILE = "Properties/C03.v"
PROOF_FILES = ["Proofs/ReviewCModels.v", "Proofs/ReviewCUspfsOpt.v", "Proofs/ReviewCUspfsAny.v", "Gen/UspfsGen.v", "Proofs/UspfsGenProofs.v", "Proofs/UspfsGenLink.v", "Proofs/UspfsGenStage1.v", "Proofs/UspfsGenEntry.v", "Proofs/UspfsGenModelPerm.v", "Proofs/UspfsGenTableExact.v", "Proofs/UspfsGenTableModel.v", "Proofs/UspfsGenDecode.v", "Proofs/UspfsGenCommon.v", "Proofs/UspfsGenStatements.v", "Gen/EvalGen.v", "Proofs/EvalGenProofs.v", "Gen/TableGen.v", "Proofs/TableGenProofs.v", "Gen/EntryGen.v", "Proofs/EntryGenProofs.v", "Proofs/AllAnyProofs.v", "Proofs/UspfsFinal.v", "Proofs/UspfsProofs.v", "Proofs/ThlProofs.v", "Model/Uspfs.v", "Model/Thl.v", "Model/Recon.v", "Model/Entry.v", "Proofs/EntryProofs.v", "Proofs/LabelCostProofs.v"]
TRUSTED = ["translator translator/pyfun.py (eighth extension) + the type tables in translator/uspfs_gen.py: compute/unordered_super_reconciliation.py (_compute_gain_sets, _compute_lca_sets, _make_event_combinator, _compute_uspfs_entry, _compute_uspfs_table, _decode_uspfs_table, _uspfs, usreconcile_base_uspfs, usreconcile_extended_uspfs; binary inputs: binarize() = the input itself, label_internal() a no-op) is translated into Gen/UspfsGen.v on every run and proved equal to Model/Uspfs.v (object nodes = identifiers, species = root paths, species LCA structure = the path operations, object-tree LCA structure = an opaque value assumed to return LCAs (C17), sets = duplicate-free lists whose iteration orders are parameters the theorems quantify over, sort_synteny = a parameter assumed to sort)", "model Model/Uspfs.v of _compute_gain_sets/_compute_lca_sets/_compute_uspfs_entry/_compute_uspfs_table/_decode_uspfs_table/_uspfs (after fix D6), on the Entry (C16) and evaluator (C06) models"]
ASSUMES = ["binary trees", "cost vectors with spe + 2*sloss <= dup + 2*floss for the optimality clauses (F-COHERENCE)"]
RULE = ("inputs = (species shape, object shape, leaf species, unordered leaf syntenies over <=4 families, coherent cost vector incl. sloss=0); "
        "non-trivial = at least one family gained at an internal node below the root or an optimal solution with a charged lossy edge / duplication / transfer")

HEADER = R.RECON_HEADER + """From SR Require Import Model.Entry Model.Thl Model.Uspfs.
Definition sols (e : option (entry ltree)) : option (list ltree) := option_map (fun x => tags x) e.
Definition utvals (St : stree) (t : utt) : list (list ext) :=
  (fix go (t : utt) : list (list ext) :=
     flat_map (fun s => [val (uread t (s, false)); val (uread t (s, true))]) (snodes St) ::
     match t with UTLeaf _ => [] | UTNode _ a b => go a ++ go b end) t.
Fixpoint usets (u : utree) : list (list fam * list fam) :=
  match u with ULeaf _ l g => [(l, g)] | UNode l g a b => (l, g) :: usets a ++ usets b end.
Definition run_uspfs (x : stree * otree * costs) :=
  let '(St, Ot, c) := x in
  (sols (uspfs St c RALL true Ot), sols (uspfs St c RALL false Ot),
   utvals St (uspfs_table St c RALL true Ot (annotate_top Ot)), usets (annotate_top Ot)).
Definition out_t := (option (list ltree) * option (list ltree) * list (list ext) * list (list fam * list fam))%type.
Definition imp_t := ((option (list ltree) * list ltree) * (option (list ltree) * list ltree) * list (list ext) * list (list fam * list fam))%type.
Definition any_ok (all : option (list ltree)) (any : list ltree) : bool :=
  match all, any with
  | Some [], [] => true
  | Some l, [r] => existsb (Uspfs.ltree_eqb r) l
  | _, _ => false
  end.
Definition any_weak (all : option (list ltree)) (any : list ltree) : bool :=
  match all, any with
  | Some [], [] => true
  | Some (_ :: _), [_] => true
  | _, _ => false
  end.
Definition uspfs_eqb_weak (a : out_t) (b : option imp_t) : bool :=
  match a, b with
  | (e1, b1, t1, s1), Some ((e2, ea), (b2, ba), t2, s2) =>
      opt_eqb (set_eqb Uspfs.ltree_eqb) e1 e2 && opt_eqb (set_eqb Uspfs.ltree_eqb) b1 b2
      && any_weak e1 ea && any_weak b1 ba
      && list_eqb (list_eqb ext_eqb) t1 t2
      && list_eqb (fun x y => list_eqb N.eqb (fst x) (fst y) && list_eqb N.eqb (snd x) (snd y)) s1 s2
  | _, None => false
  end.
Definition uspfs_eqb (a : out_t) (b : option imp_t) : bool :=
  match a, b with
  | (e1, b1, t1, s1), Some ((e2, ea), (b2, ba), t2, s2) =>
      opt_eqb (set_eqb Uspfs.ltree_eqb) e1 e2 && opt_eqb (set_eqb Uspfs.ltree_eqb) b1 b2
      && any_ok e1 ea && any_ok b1 ba
      && list_eqb (list_eqb ext_eqb) t1 t2
      && list_eqb (fun x y => list_eqb N.eqb (fst x) (fst y) && list_eqb N.eqb (snd x) (snd y)) s1 s2
  | _, None => false
  end.
"""

GRID = [
    {"spe": 0, "dup": 1, "hgt": 1, "floss": 1, "sloss": 1},
    {"spe": 0, "dup": 1, "hgt": 1, "floss": 1, "sloss": 0},
    {"spe": 0, "dup": 1, "hgt": "inf", "floss": 1, "sloss": 1},
    {"spe": 0, "dup": 1, "hgt": 2, "floss": 2, "sloss": 2},
    {"spe": 0, "dup": 2, "hgt": 1, "floss": 0, "sloss": 1},
    {"spe": 1, "dup": 1, "hgt": 0, "floss": 1, "sloss": 1},
    {"spe": 2, "dup": 0, "hgt": 2, "floss": 1, "sloss": 0},
]


def caterpillar(rng, n, sleaves, fams):
    """nested chain of internal nodes: the shape on which successive INHERIT nodes appear"""
    def leaf():
        k = rng.randint(1, len(fams))
        return {"sp": rng.choice(sleaves), "syn": sorted(rng.sample(fams, k))}
    o = leaf()
    for _ in range(n - 1):
        o = [o, leaf()] if rng.random() < 0.5 else [leaf(), o]
    return o


def _leaves(o):
    return [o] if isinstance(o, dict) else _leaves(o[0]) + _leaves(o[1])


def _internal(o):
    return [] if isinstance(o, dict) else [o] + _internal(o[0]) + _internal(o[1])


def rand_case(rng, max_o, max_s, max_f, chain=0.25, clade=0.3, band=0.0):
    S = R.rand_shape(rng, rng.randint(1, max_s))
    nf = rng.randint(1, max_f)
    fams = sorted(rng.sample(range(1, 8), nf))
    if rng.random() < chain and max_o >= 5:
        O = caterpillar(rng, rng.randint(5, max_o), R.shape_leaves(S), fams)
    else:
        O = R.rand_otree(rng, rng.randint(2, max_o), R.shape_leaves(S), fams=fams)
    c = dict(rng.choice(GRID)) if rng.random() < 0.6 else R.rand_costs(rng)
    if rng.random() < clade:
        # families gained inside the tree: a fresh family on some leaves below a random internal node (this is what
        # makes internal nodes gain families and INHERIT them further down), with losses dearer than transfers
        ints = _internal(O)
        if ints:
            for f in (8, 9)[:rng.randint(1, 2)]:
                ls = _leaves(rng.choice(ints))
                for l in rng.sample(ls, rng.randint(2, len(ls))):
                    l["syn"] = sorted(set(l["syn"]) | {f})
        if rng.random() < 0.6:
            c2 = {"spe": 0, "dup": rng.randint(1, 4), "hgt": rng.randint(0, 2), "floss": rng.randint(1, 4), "sloss": rng.randint(1, 4)}
            if R.coherent(c2):
                c = c2
    if rng.random() < band:
        # the band spe + sloss <= dup + 2 floss < spe + 2 sloss: inside the region the unordered theorems need,
        # outside the one the ordered solver needs
        for _ in range(200):
            c2 = R.rand_costs(rng, coherent_only=False, hi=4)
            if R.ucoherent(c2) and not R.coherent(c2):
                c = c2
                break
    case = {"S": S, "O": O, "costs": c}
    if rng.random() < 0.4:    # family names of different lengths / cases (the model knows families as numbers only)
        case["fnames"] = rng.choice([1, 2])
    if rng.random() < 0.15:   # an LCA structure was built on the same species tree while children were in another order
        case["prime_lca"] = True
    if rng.random() < 0.3:    # trees decorated with branch lengths / supports
        case["dist"] = rng.randrange(1 << 30)
    if rng.random() < 0.25:   # same input object solved before under other costs (see recon.primed)
        case["prime"] = R.rand_costs(rng, coherent_only=False) if rng.random() < 0.6 else "topology"
    return case


def impl(case):
    from superrec2.compute import unordered_super_reconciliation as M
    from superrec2.utils.dynamic_programming import RetentionPolicy as RP
    B = R.primed(case, lambda i: M.usreconcile_extended_uspfs(i, RP.ALL), labelled=True, unordered=True)
    out = {}
    for name, fn in (("ext", M.usreconcile_extended_uspfs), ("base", M.usreconcile_base_uspfs)):
        try:
            out[name] = sorted((B.canon(o) for o in fn(B.input, RP.ALL)), key=json.dumps)
            out[name + "_any"] = [B.canon(o) for o in fn(B.input, RP.ANY)]
        except Exception as e:
            out[name] = None
            out[name + "_any"] = []
            out[name + "_error"] = type(e).__name__
    out["table"] = out["sets"] = None
    try:
        gains = M._compute_gain_sets(B.input)
        lcas = M._compute_lca_sets(B.input, gains)
        nodes = list(B.otree.traverse("preorder"))
        out["sets"] = [[sorted(R.fam_id(f, B.fam_scheme) for f in lcas[n]), sorted(R.fam_id(f, B.fam_scheme) for f in gains[n])] for n in nodes]
        t = M._compute_uspfs_table(B.input, lcas, lambda species, _: species.traverse("postorder"), RP.ALL)
        snodes = [B.snode[p] for p in R.shape_paths(case["S"])]
        K = M.SyntenyAssignment
        out["table"] = [[R.ext_of(t[n][s][k].value()) for s in snodes for k in (K.LCA, K.INHERIT)] for n in nodes]
    except Exception:
        out["table"] = out["sets"] = None
    return out


def enc_ltrees(l):
    return clist(R.enc_ltree(x) for x in l)


def enc_out(case, r):
    if r["table"] is None:
        raise RuntimeError("_compute_uspfs_table/_compute_gain_sets unavailable with the known signature")
    return copt(cpair(
        cpair(copt(None if r["ext"] is None else enc_ltrees(r["ext"])), enc_ltrees(r["ext_any"])),
        cpair(copt(None if r["base"] is None else enc_ltrees(r["base"])), enc_ltrees(r["base_any"])),
        clist(clist(R.enc_ext(v) for v in row) for row in r["table"]),
        clist(cpair(clist(cN(f) for f in l), clist(cN(f) for f in g)) for l, g in r["sets"])))


def oracle(case, r):
    S, O, c = case["S"], case["O"], case["costs"]
    for k in ("ext", "base"):
        if r.get(k) is None:
            return False, f"{k} solver raised {r.get(k + '_error')}"
    for name, lca_only in (("ext", False), ("base", True)):
        got = r[name]
        for sol in got:
            ok, why = LB.valid_unordered(S, O, sol)
            if not ok:
                return False, f"{name}: invalid solution returned: {why}"
        m, opt = LB.best_unordered(S, O, c, lca_only=lca_only)
        if m is None:
            if got:
                return False, f"{name}: solutions returned although none exists"
            continue
        costs = {LB.cost_labelled(S, sol, c, False) for sol in got}
        if costs != {m}:
            return False, f"{name}: returned costs {sorted(costs)}, the minimum over all labellings is {m}"
        # 'all': every optimal solution among the two canonical choices per node; all returned ones must be optimal (checked) and distinct
        if len({json.dumps(x) for x in got}) != len(got):
            return False, f"{name}: duplicates in the 'all' result"
        anyr = r[name + "_any"]
        if len(anyr) != 1 or json.dumps(anyr[0]) not in {json.dumps(x) for x in got}:
            return False, f"{name}: 'any' must return exactly one solution of the 'all' set"
    return True, "minimum cost over all labellings, valid solutions"


def nontrivial(case, r):
    return bool(r.get("ext")) and len(R.otree_leaves(case["O"])) >= 3


def make_batch(name, cases, describe, shard=120):
    return Batch(
        name=name, header=HEADER, run="run_uspfs", eqb="uspfs_eqb",
        ty_in="stree * otree * costs", ty_out="option imp_t",
        cases=cases, impl=impl,
        enc_in=lambda c: cpair(R.enc_stree(c["S"]), R.enc_otree(c["O"]), R.enc_costs(c["costs"])),
        enc_out=enc_out, oracle=oracle, nontrivial=nontrivial, exhaustive=False, shard=shard, describe=describe)


def gen(ctx):
    rng = ctx.rng
    quick = ctx.quick()
    cases = [R.case_from_names({"object": "((g2,g4),((g1,g5),(g0,g3)))", "species": "(C,(A,B))",
                                "leafmap": {"g0": "A", "g1": "B", "g2": "A", "g3": "A", "g4": "C", "g5": "B"},
                                "syntenies": {"g0": ["w"], "g1": ["x", "z"], "g2": ["w"], "g3": ["z"], "g4": ["y"], "g5": ["x"]},
                                "costs": {"spe": 0, "dup": 1, "hgt": 2, "floss": 1, "sloss": 2}})]
    for _ in range(4000 if quick else 30000):
        cases.append(rand_case(rng, 5 if quick else 6, 3 if quick else 4, 4, band=0.15))
    return cases


def batches(ctx):
    cases = gen(ctx)
    ctx.dist["uspfs"] = {"cases": len(cases), "sloss0": sum(1 for c in cases if c["costs"]["sloss"] == 0),
                         "infinite_hgt": sum(1 for c in cases if c["costs"]["hgt"] == "inf")}
    yield make_batch("uspfs", cases,
                     "the D6 witness, then random inputs up to 5-6 object leaves, 3-4 species leaves, 4 families; compared: gain/lca sets, every table value (both kinds), "
                     "extended and base solvers under ALL (sets) and ANY (membership)")


def extra(ctx):
    """independent sample against the brute-force specification over ALL labellings (a test, not a proof)"""
    rng = ctx.rng
    n = 40 if ctx.quick() else 400
    bad = 0
    from ..core import Finding
    for _ in range(n):
        case = rand_case(rng, 4, 3, 3)
        r = impl(case)
        ok, why = oracle(case, r)
        ctx.evaluations += 1
        if not ok:
            ctx.findings.append(Finding("spec_sample", case, r, "(specification oracle)", False, why))
            bad += 1
    ctx.notes.append(f"specification sample: {n} random inputs checked against the brute-force optimum over all labellings, {bad} failures")


TECHNIQUE = ("Coq proof: gain/LCA sets characterised, refinement of the faithful table to a clean recurrence over (species, kind), optimiser charge = evaluator charge inside the region, "
             "optimality among canonical labellings, and canonicalisation lemma (any valid labelling can be made canonical at no greater cost) giving the optimum over ALL labellings; "
             "model tied to the code twice: the solver source is translated into Gen/UspfsGen.v on every run and proved equal to the model (UspfsGen*.v: gain and LCA sets, one cell, the whole table, decoder, both entry points), and by table-level correspondence")
OPEN_GOALS: list = []
LEVEL_TEXT = ("Machine-checked for all binary inputs and cost vectors in the region (the proofs need only spe + sloss <= dup + 2*floss, 0 <= floss, 0 <= sloss): the cost returned by SuperDTL is the minimum "
              "over all valid species mappings and ALL family-set labellings in which each family is gained once at the LCA of its carriers; every returned solution is valid and attains it; "
              "the base solver attains the minimum on the LCA mapping; ALL = exactly the optimal canonical solutions, ANY exactly one. "
              "The model is compared with the code on gain/LCA sets, every table value, ALL sets and ANY members; a brute-force sample over every labelling runs on every check. The solver source is also translated into Gallina on every run (Gen/UspfsGen.v) and proved equal to the model; composed with the optimality theorems: under the premises listed in DESIGN section 8 the GENERATED usreconcile_extended_uspfs / usreconcile_base_uspfs under ALL return a non-empty duplicate-free list that is exactly the set of minimum-cost valid solutions over all labellings (C03_c03_gen_extended_optimum, _base_), and under ANY one of them (C03_gen_usreconcile_*_uspfs_any).")
LEVEL_NOTE = ("Trusted: Coq kernel; the translator (pyfun.py + uspfs_gen.py) that regenerates Gen/UspfsGen.v from the source; hand-written model (proved equal to the generated functions, and correspondence = differential testing). No axioms. Theorems are about the code after fix D6. "
              "Known finding F-COHERENCE outside the region (witness replayed).")


def pre_build(ctx):
    from translator import uspfs_gen
    from .. import core
    changed = uspfs_gen.regenerate(core.REPO)
    ctx.notes.append("Gen/UspfsGen.v " + ("regenerated from compute/unordered_super_reconciliation.py (content changed)" if changed else "regenerated: unchanged"))


def known_signature(f, kf):
    return kf["id"] == "F-COHERENCE" and not R.ucoherent(f.case["costs"]) and R.coherence_signature(f)


def replay_known(ctx, kf):
    if kf["id"] == "F-COHERENCE":
        w = kf.get("witness_unordered")
        if w is None:
            return False, "no unordered witness recorded"
        r = impl(w)
        m, _ = LB.best_unordered(w["S"], w["O"], w["costs"])
        got = {LB.cost_labelled(w["S"], s, w["costs"], False) for s in (r.get("ext") or [])}
        return (got != {m}), f"usreconcile_extended_uspfs returns cost {sorted(got)}, the minimum is {m} (costs outside spe + 2*sloss <= dup + 2*floss)"
    w = R.case_from_names(kf["witness"])
    r = impl(w)
    ok, why = oracle(w, r)
    return (not ok), why


def search(ctx):
    """failing-input search: fresh, larger random inputs judged by the specification oracle alone"""
    import time
    from ..core import Finding
    rng = ctx.rng
    t0 = time.time()
    budget = 150 if ctx.quick() else 900
    n = 0
    while time.time() - t0 < budget:
        case = rand_case(rng, 6, 4, 4)
        r = impl(case)
        ok, why = oracle(case, r)
        n += 1
        ctx.evaluations += 1
        if ok is False:
            ctx.notes.append(f"failing-input search: violation found after {n} fresh inputs")
            return Finding("search", case, r, "(specification oracle)", False, why)
    ctx.notes.append(f"failing-input search: {n} fresh inputs, none violates the property")
    return None


def replay_case(payload):
    """search / spec_sample findings: the implementation's answer judged by the specification oracle"""
    case = payload["case"]
    r = impl(case)
    ok, why = oracle(case, r)
    return ok, why, r
