"""C01 — general DTL reconciliation returns a minimum-cost reconciliation."""
from __future__ import annotations

import itertools
import json

from ..core import Batch, cN, cZ, cbool, clist, copt, cpair
from .. import recon as R

ID = "C01"
LEVEL = "proof"
PROP_FILE = "Properties/C01.v"
PROOF_FILES = ["Proofs/ReviewCThlAny.v", "Gen/ThlGen.v", "Proofs/ThlGenProofs.v", "Gen/TableGen.v", "Proofs/TableGenProofs.v", "Gen/EntryGen.v", "Proofs/EntryGenProofs.v", "Gen/EvalGen.v", "Proofs/EvalGenProofs.v", "Proofs/AllAnyProofs.v", "Proofs/ThlProofs.v", "Proofs/ExhProofs.v", "Proofs/EntryProofs.v", "Proofs/ReconProofs.v", "Proofs/PathFacts.v",
               "Model/Thl.v", "Model/Recon.v", "Model/Entry.v", "Base/PathB.v", "Base/Ext.v"]
TRUSTED = [
    "translator translator/pyfun.py + the type tables in translator/table_gen.py and thl_gen.py: the THL solver of compute/reconciliation.py (_compute_thl_try_speciation, _compute_thl_try_duplication_transfer, _compute_thl_table, _decode_thl_table, reconcile_thl, reconcile_lca) and the table classes it runs on are translated into Gen/ThlGen.v and Gen/TableGen.v on every run and proved equal to Model/Thl.v / Model/Entry.v (object nodes = identifiers, species = root paths, LCA structure = the path operations)","model Model/Thl.v of _compute_thl_table/_decode_thl_table/reconcile_thl and generate_all/reconcile_exhaustive (after fixes D2-D4), built on the Entry model (C16) and the evaluator model (C06)"]
ASSUMES = ["binary trees", "cost vectors in the coherent region spe <= dup + 2*floss for the optimality clauses (F-COHERENCE, DESIGN section 9)"]
RULE = ("inputs = (species shape, object shape, leaf assignment incl. species without objects, cost vector in the coherent region with finite or infinite transfer cost); "
        "exhaustive over small shapes/assignments x a cost grid, random larger; non-trivial = some optimal solution contains a duplication or a transfer and the species tree has >= 2 leaves")

HEADER = R.RECON_HEADER + """From SR Require Import Model.Entry Model.Thl.
Definition table_vals (St : stree) (t : ttree) : list (list ext) :=
  (fix go (t : ttree) : list (list ext) :=
     map (fun s => val (tread t s)) (snodes St) ::
     match t with TLeaf _ => [] | TNode _ a b => go a ++ go b end) t.
Definition run_thl (x : stree * otree * costs) :=
  let '(St, Ot, c) := x in
  let all := tags (reconcile_thl St c RALL Ot) in
  (all, tags (reconcile_thl St c RANY Ot), table_vals St (thl_table St c RALL Ot),
   tags (reconcile_exhaustive c RALL Ot), gen_all Ot, tags (reconcile_exhaustive c RANY Ot)).
Definition out_t := (list rtree * list rtree * list (list ext) * list rtree * list rtree * list rtree)%type.
(* ANY: the implementation's single answer must belong to the model's ALL set (which of the optima is kept depends
   on the enumeration order; the model's own ANY answer must be a singleton too) *)
Definition any_ok (model_all model_any impl_any : list rtree) : bool :=
  match impl_any with
  | [] => match model_all with [] => true | _ => false end
  | [r] => existsb (rtree_eqb r) model_all && match model_any with [_] => true | _ => false end
  | _ => false
  end.
(* a = model, b = implementation *)
Definition thl_eqb (a b : option out_t) : bool :=
  match a, b with
  | Some (a1, a2, a3, a4, a5, a6), Some (b1, b2, b3, b4, b5, b6) =>
      set_eqb rtree_eqb a1 b1
      && (match b2 with [] => match a1 with [] => true | _ => false end
                      | [r] => existsb (rtree_eqb r) a1 | _ => false end)
      && list_eqb (list_eqb ext_eqb) a3 b3
      && set_eqb rtree_eqb a4 b4
      && set_eqb rtree_eqb a5 b5
      && any_ok a4 a6 b6
  | _, _ => false
  end.
(* outside the coherent region the ANY answer need not belong to the ALL set: only its presence is compared *)
Definition thl_eqb_weak (a b : option out_t) : bool :=
  match a, b with
  | Some (a1, a2, a3, a4, a5, a6), Some (b1, b2, b3, b4, b5, b6) =>
      set_eqb rtree_eqb a1 b1
      && (match b2 with [] => match a1 with [] => true | _ => false end
                      | [_] => match a1 with [] => false | _ => true end | _ => false end)
      && list_eqb (list_eqb ext_eqb) a3 b3
      && set_eqb rtree_eqb a4 b4
      && set_eqb rtree_eqb a5 b5
      && any_ok a4 a6 b6
  | _, _ => false
  end.
"""


def _fill(shape, it):
    return {"sp": next(it), "syn": []} if shape == 0 else [_fill(shape[0], it), _fill(shape[1], it)]


COST_GRID = [
    {"spe": 0, "dup": 1, "hgt": 1, "floss": 1, "sloss": 1},
    {"spe": 0, "dup": 1, "hgt": "inf", "floss": 1, "sloss": 1},
    {"spe": 0, "dup": 0, "hgt": 0, "floss": 0, "sloss": 1},
    {"spe": 1, "dup": 1, "hgt": 2, "floss": 0, "sloss": 1},
    {"spe": 2, "dup": 2, "hgt": 1, "floss": 0, "sloss": 1},
    {"spe": 0, "dup": 1, "hgt": 3, "floss": 3, "sloss": 1},
    {"spe": 3, "dup": 1, "hgt": 0, "floss": 1, "sloss": 1},
    {"spe": 0, "dup": 2, "hgt": 0, "floss": 0, "sloss": 1},
]


def gen_cases(ctx, max_o, max_s, n_rand, rand_o, rand_s):
    rng = ctx.rng
    cases = []
    for ns in range(1, max_s + 1):
        for S in R.all_shapes(ns):
            sl = R.shape_leaves(S)
            for no in range(1, max_o + 1):
                for Osh in R.all_shapes(no):
                    assigns = list(itertools.product(sl, repeat=no))
                    for a in assigns:
                        O = _fill(Osh, iter(a))
                        for c in (COST_GRID if no <= 2 or ns <= 2 else rng.sample(COST_GRID, 2)):
                            cases.append({"S": S, "O": O, "costs": c})
    for _ in range(n_rand):
        S = R.rand_shape(rng, rng.randint(1, rand_s))
        O = R.rand_otree(rng, rng.randint(1, rand_o), R.shape_leaves(S))
        cases.append({"S": S, "O": O, "costs": R.rand_costs(rng, plain=True)})
        if rng.random() < 0.2:   # an LCA structure was built on the same species tree while children were in another order
            cases[-1]["prime_lca"] = True
        if rng.random() < 0.3:   # trees decorated with branch lengths / supports; ancestors without names (API-level inputs)
            cases[-1]["dist"] = rng.randrange(1 << 30)
        if rng.random() < 0.25:
            cases[-1]["blank"] = True
        if rng.random() < 0.3:   # same input object solved before under other costs (see recon.primed)
            cases[-1]["prime"] = R.rand_costs(rng, plain=True, coherent_only=False) if rng.random() < 0.6 else "topology"
    return cases


def impl_thl(c):
    from superrec2.compute.reconciliation import reconcile_thl, _compute_thl_table
    from superrec2.compute.exhaustive import reconcile_exhaustive, generate_all
    from superrec2.utils.dynamic_programming import RetentionPolicy
    B = R.primed(c, lambda i: (reconcile_thl(i, RetentionPolicy.ALL), reconcile_exhaustive(i, RetentionPolicy.ANY)))
    try:
        allr = sorted((B.canon(o) for o in reconcile_thl(B.input, RetentionPolicy.ALL)), key=json.dumps)
        anyr = [B.canon(o) for o in reconcile_thl(B.input, RetentionPolicy.ANY)]
        exh = sorted((B.canon(o) for o in reconcile_exhaustive(B.input, RetentionPolicy.ALL)), key=json.dumps)
        exh_any = [B.canon(o) for o in reconcile_exhaustive(B.input, RetentionPolicy.ANY)]
        gen = [B.canon(o) for o in generate_all(B.input)]
        cost = R.ext_of(min(o.cost() for o in reconcile_thl(B.input, RetentionPolicy.ALL))) if allr else None
    except Exception as e:  # the property: neither solver fails on a well-formed input
        return {"error": type(e).__name__}
    table = None
    try:
        t = _compute_thl_table(B.input, RetentionPolicy.ALL)
        snodes = [B.snode[p] for p in R.shape_paths(c["S"])]
        table = [[R.ext_of(t[n][s].value()) for s in snodes] for n in B.otree.traverse("preorder")]
    except Exception:
        table = None  # helper renamed/re-shaped: secondary comparison skipped
    return {"all": allr, "any": anyr, "exh": exh, "gen": gen, "cost": cost, "table": table, "exh_any": exh_any}


def oracle_thl(c, r):
    if "error" in r:
        return False, f"solver raised {r['error']} on a well-formed input"
    orc = R.Oracle(c["S"])
    valid = orc.enumerate_valid(c["O"]) if len(R.otree_leaves(c["O"])) <= 5 else None
    if valid is not None:
        costs = [orc.cost_of(v, c["costs"]) for v in valid]
        m = min(costs)
        opt = {json.dumps(v) for v, k in zip(valid, costs) if k == m}
        vs = sorted(json.dumps(v) for v in valid)
        if sorted(json.dumps(g) for g in r["gen"]) != vs:
            return False, f"generate_all yields {len(r['gen'])} reconciliations, the valid ones are {len(vs)} (each must appear exactly once)"
    else:
        m, opt = orc.best(c["O"], c["costs"])
    if m == float("inf"):
        return True, "no finite-cost reconciliation: outside the explored domain"
    for name in ("all", "exh"):
        got = {json.dumps(x) for x in r[name]}
        bad = [x for x in r[name] if orc.cost_of(x, c["costs"]) != m]
        if bad:
            return False, f"{name}: returned a reconciliation of cost {orc.cost_of(bad[0], c['costs'])}, the minimum is {m}"
        if got != opt:
            return False, f"{name}: returned {len(got)} optimal solutions, the optimal set has {len(opt)}"
    if len(r["any"]) != 1 or json.dumps(r["any"][0]) not in opt:
        return False, "any: must return exactly one optimal solution"
    if "exh_any" in r and (len(r["exh_any"]) != 1 or json.dumps(r["exh_any"][0]) not in opt):
        return False, "exhaustive solver, any: must return exactly one optimal solution"
    return True, "results are valid, optimal, complete"


def enc_out(c, r):
    if "error" in r:
        return "None"
    table = r["table"]
    if table is None:
        raise RuntimeError("table helper unavailable")  # handled by caller through enc_out_soft
    return copt(cpair(clist(R.enc_rtree(x) for x in r["all"]), clist(R.enc_rtree(x) for x in r["any"]),
                      clist(clist(R.enc_ext(v) for v in row) for row in table),
                      clist(R.enc_rtree(x) for x in r["exh"]), clist(R.enc_rtree(x) for x in r["gen"]),
                      clist(R.enc_rtree(x) for x in r.get("exh_any", []))))


def nontrivial(c, r):
    if "error" in r or not r["all"] or c["S"] == 0:
        return False
    orc = R.Oracle(c["S"])

    def has_dt(sol):
        if isinstance(sol, str):
            return False
        l = sol[1] if isinstance(sol[1], str) else sol[1][0]
        rr = sol[2] if isinstance(sol[2], str) else sol[2][0]
        return orc.event(sol[0], l, rr) != "S" or has_dt(sol[1]) or has_dt(sol[2])
    return any(has_dt(s) for s in r["all"])


def thl_batch(ctx, name, cases, describe):
    return Batch(
        name=name, header=HEADER, run="fun x => Some (run_thl x)", eqb="thl_eqb",
        ty_in="stree * otree * costs", ty_out="option out_t",
        cases=cases, impl=impl_thl,
        enc_in=lambda c: cpair(R.enc_stree(c["S"]), R.enc_otree(c["O"]), R.enc_costs(c["costs"])),
        enc_out=enc_out, oracle=oracle_thl, nontrivial=nontrivial, exhaustive=False, shard=250,
        describe=describe)


def pre_build(ctx):
    from translator import table_gen
    from translator import thl_gen
    from .. import core
    changed = False
    changed = table_gen.regenerate(core.REPO) or changed
    changed = thl_gen.regenerate(core.REPO) or changed
    ctx.notes.append("generated solver/table files " + ("regenerated (content changed)" if changed else "regenerated: unchanged"))


def batches(ctx):
    quick = ctx.quick()
    cases = gen_cases(ctx, 3, 3, 500 if quick else 5000, 5, 6) if quick else gen_cases(ctx, 4, 3, 5000, 5, 6)
    if not quick:
        ctx.rng.shuffle(cases)
        cases = cases[:30000]
    ctx.dist["thl"] = {"cases": len(cases), "infinite_hgt": sum(1 for c in cases if c["costs"]["hgt"] == "inf"),
                       "single_node_species": sum(1 for c in cases if c["S"] == 0), "single_leaf_object": sum(1 for c in cases if isinstance(c["O"], dict))}
    yield thl_batch(ctx, "thl", cases,
                    "all species/object shapes up to 3 (quick) / 3-4 (thorough) leaves x every leaf assignment x a coherent cost grid; random inputs up to 5 object / 6 species leaves; "
                    "compared: reconcile_thl ALL set, ANY membership, every table value, reconcile_exhaustive ALL set, generate_all as a duplicate-free list")

OPEN_GOALS: list = []
TECHNIQUE = ("Coq proof: refinement of the faithful table model (aggregator entries, combine, proxy writes) to a clean DP recurrence, "
             "one-node lemma optimiser charge = evaluator charge inside the coherent region, lower bound + attainment + decode soundness/completeness by induction on the object tree; "
             "exhaustive enumerator = valid reconciliations by induction; models tied to the code by exhaustive small inputs x cost grid + random inputs")
LEVEL_TEXT = ("The solver itself is tied to the model by translation: _compute_thl_try_speciation, _compute_thl_try_duplication_transfer, _compute_thl_table, _decode_thl_table, reconcile_thl and reconcile_lca (and Table / EntryProxy / Entry underneath) are regenerated from the source on every run and proved equal to the model: every table cell has the model's value for every policy and the model's tags as a set under ALL, the decoded ALL result is the model's up to permutation, reconcile_lca = lca_rec (C01_gen_*). Machine-checked for all binary trees, leaf assignments and cost vectors with 0<=floss, spe<=dup+2*floss, transfer cost finite or +inf: "
              "reconcile_thl(ALL) returns exactly the valid minimum-cost reconciliations (each once), reconcile_thl(ANY) exactly one of them (for any enumeration order of the root species: C01_thl_any_order; exhaustive: any order of the candidates), the result is never empty; "
              "validity holds for any unit costs; generate_all yields every valid reconciliation exactly once and reconcile_exhaustive exactly the optimal ones (any costs). "
              "The models are compared with reconcile_thl (ALL set, ANY membership), every value of _compute_thl_table, reconcile_exhaustive and generate_all on all inputs up to 3/3 leaves "
              "(quick) x a coherent cost grid and on random inputs up to 5/6 leaves; the brute-force oracle classifies disagreements. The solver source (table steps, table, decoder, reconcile_thl, reconcile_lca) is also translated into Gallina on every run (Gen/ThlGen.v) and proved equal to the model: under ALL the generated reconcile_thl returns the model's set up to permutation, under ANY one member of it (C01_gen_reconcile_thl_model, C01_gen_reconcile_thl_any), under the premises listed in DESIGN section 8.")
LEVEL_NOTE = ("Trusted: Coq kernel; hand-written models (correspondence = differential testing); ancestry on root paths (C17); Entry model (C16); evaluator model (C06). No axioms. "
              "Theorems are about the code after fixes D2-D4. Outside the coherent region the optimiser and the evaluator differ (C01_incoherent_refuted; known finding F-COHERENCE, witnesses replayed).")


def _thl_cost(case):
    from superrec2.compute.reconciliation import reconcile_thl
    from superrec2.utils.dynamic_programming import RetentionPolicy
    B = R.Built(case["S"], case["O"], case["costs"])
    res = reconcile_thl(B.input, RetentionPolicy.ALL)
    return min(R.ext_of(o.cost()) for o in res) if res else None


def known_signature(f, kf):
    # F-COHERENCE: the cost vector is outside the coherent region
    return kf["id"] == "F-COHERENCE" and not R.coherent(f.case["costs"], plain=True) and R.coherence_signature(f)


def replay_known(ctx, kf):
    w = kf["witness_plain"] if "witness_plain" in kf else kf.get("witness")
    if kf["id"] == "F-COHERENCE":
        got = _thl_cost(w)
        m, _ = R.Oracle(w["S"]).best(w["O"], w["costs"])
        return (got != m), f"reconcile_thl returns cost {got}, the minimum over valid reconciliations is {m} (costs outside spe <= dup + 2*floss)"
    # fixed defects: replay the witness through the ordinary oracle
    w = R.case_from_names(w)
    r = impl_thl(w)
    ok, why = oracle_thl(w, r)
    return (not ok), why


def search(ctx):
    """a tie is broken without a concrete failing input: larger fresh inputs against an independent DP oracle"""
    import time
    from ..core import Finding
    from . import c09
    rng = ctx.rng
    t0 = time.time()
    budget = 150 if ctx.quick() else 900
    n = 0
    while time.time() - t0 < budget:
        S = R.rand_shape(rng, rng.randint(3, 8))
        case = {"S": S, "O": R.rand_otree(rng, rng.randint(3, 9), R.shape_leaves(S)), "costs": R.rand_costs(rng, plain=True)}
        n += 1
        ctx.evaluations += 1
        try:
            v0, s0 = c09.thl_result(case)
        except Exception as e:
            return Finding("search", case, {"error": type(e).__name__}, "(specification oracle)", False, f"reconcile_thl raised {type(e).__name__}")
        m, opt = R.Oracle(case["S"]).best(case["O"], case["costs"])
        got = float("inf") if v0 == R.INF else v0
        if got != m or {json.dumps(x) for x in s0} != opt:
            return Finding("search", case, [v0, s0], "(specification oracle)", False,
                           f"reconcile_thl returns minimum {v0} with {len(s0)} optimal solutions; the true minimum is {m} with {len(opt)}")
    ctx.notes.append(f"failing-input search: {n} fresh inputs, none violates the property")
    return None


def replay_case(payload):
    """search findings: reconcile_thl's minimum and ALL set against the independent dynamic programme"""
    from . import c09
    case = payload["case"]
    try:
        v0, s0 = c09.thl_result(case)
    except Exception as e:  # noqa: BLE001
        return False, f"reconcile_thl raised {type(e).__name__}", {"error": type(e).__name__}
    m, opt = R.Oracle(case["S"]).best(case["O"], case["costs"])
    got = float("inf") if v0 == R.INF else v0
    ok = got == m and {json.dumps(x) for x in s0} == opt
    return ok, f"reconcile_thl returns minimum {v0} with {len(s0)} optimal solutions; the true minimum is {m} with {len(opt)}", [v0, s0]
