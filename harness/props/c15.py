"""C15 — generated TikZ is well-formed and labels are faithful."""
from __future__ import annotations

import itertools
import json
import random
import re
from fractions import Fraction

from .. import core
from ..core import Batch, cbool, clist, cnat, copt, cpair

ID = "C15"
LEVEL = "proof"
PROP_FILE = "Properties/C15.v"
PROOF_FILES = ["Proofs/ReviewCEscape.v", "Proofs/RenderProofs.v", "Proofs/TikzProofs.v", "Proofs/EscapeProofs.v", "Proofs/WrapProofs.v", "Proofs/ColourProofs.v",
               "Model/Tikz.v", "Model/Escape.v", "Model/Wrap.v", "Model/Colour.v", "Gen/TikzTemplates.v"]
TRUSTED = [
    "translator/tikz_templates.py (fail-closed ast walk of render/tikz.py -> Gen/TikzTemplates.v; its output is data re-checked by the kernel and "
    "every line of every rendered sample is re-instantiated from it inside Coq)",
    "models Model/Escape.v (tex.escape), Model/Wrap.v (balanced_wrap, textwrap.wrap on the hyphen-free single-space domain), "
    "Model/Colour.v (colour propagation after fix D8, get_color interning), Model/Tikz.v (statement sequence of render, labels of _compute_branches)",
    "brace balance counts the characters { and } (TeX control symbols \\{ \\} cannot arise: escaped text contains a backslash only in front of a backslash or an underscore)",
]
ASSUMES = [
    "textwrap.wrap(break_long_words=False) is the greedy algorithm of Model/Wrap.v on texts of non-empty, hyphen-free words separated by single spaces "
    "(compared exhaustively on small word lists on every run)",
    "the TeX bridge tex.measure returns one box per input, in order (replaced by a stub)",
    "DrawParams string/number fields printed into the definitions are brace-balanced (Param holes); coordinates print as numbers (Coord holes)",
    "branch order and geometry of layout.compute are taken from the implementation run (modelled by C13/C14, not here)",
]
RULE = ("render cases: (species tree, object tree with names/colours/syntenies, valid reconciliation, orientation, two wrap widths, stub sizes); "
        "small part = every valid reconciliation of every binary input with <=2 species leaves and <=3 object leaves (thorough: <=3 and <=3), sampled beyond, "
        "random part = random inputs up to 10 object leaves with random valid reconciliations (speciations, duplications, transfers, losses); "
        "non-trivial = at least one internal object node and (a colour, a synteny or a loss); "
        "colour cases: the same inputs, non-trivial = a coloured node with a coloured or uncoloured descendant; "
        "wrap cases: (word list, width), exhaustive = every list of at most 4 words of lengths 1-4 x widths 0-10, random = up to 14 words x widths 1-30, "
        "non-trivial = at least two words and more than one line; escape cases: every string up to length 5 over {a,_,\\,{,}} plus random strings, "
        "non-trivial = contains an underscore or a backslash")
OPEN_GOALS: list = []
def _wrap_sweep(args):
    """all word-length patterns of one length class against the wrapping clauses (implementation + oracle only)"""
    import itertools
    n, first = args
    I = _impl()
    bad = None
    for rest in itertools.product([1, 2, 4, 8, 9], repeat=n - 1):
        words = ["abcdefghi"[:k] for k in (first,) + rest]
        flat = " ".join(words)
        for width in range(1, 11):
            try:
                shown = I["text"].balanced_wrap(flat, width)
            except Exception as e:  # noqa: BLE001
                return [words, width], f"balanced_wrap raised {type(e).__name__}"
            ok, why = o_wrapped_ok(shown, flat, width, "\n")
            if not ok:
                return [words, width], why
    return bad


def search(ctx):
    """the tie is broken but no clause fails on the generated cases: an exhaustive sweep of the wrapping clauses over
    every list of up to 6 words with lengths in {1,2,4,8,9} and every width 1..10 (the implementation judged by the
    property's own oracle)"""
    import multiprocessing as mp
    from ..core import Finding, NPROC
    jobs = [(n, first) for n in range(1, 7) for first in (1, 2, 4, 8, 9)]
    with mp.get_context("fork").Pool(NPROC) as pool:
        for res in pool.imap_unordered(_wrap_sweep, jobs):
            ctx.evaluations += 1
            if res is not None:
                case, why = res
                ctx.notes.append("failing-input search: wrapping clause violated on an exhaustive sweep of short word lists")
                return Finding("wrap", case, None, "(wrapping clauses)", False, why)
    ctx.notes.append("failing-input search: exhaustive sweep of short word lists (<= 6 words, lengths 1,2,4,8,9, widths 1-10): no clause fails")
    return None


TECHNIQUE = ("Coq proofs over hand-written models of escape / wrapping / colour propagation / interning; kernel computation over the template list "
             "regenerated from render/tikz.py on every run, lifted by a proved soundness lemma; models and templates tied to the code by "
             "differential testing evaluated with vm_compute, with a text-level oracle written from the property")
LEVEL_TEXT = ("End to end (C15_render_full_balanced): whenever the model's render succeeds on brace-free names, colours, families, coordinates and parameters, the model emits (template, colour, text) triples whose text is BY DEFINITION an instance of a template of the generated Gen/TikzTemplates.v (that the code's output equals the model's is correspondence); proved about them: every line is brace-balanced, every picture statement ends with ';', the text is definitions, colour definitions, one \\begin{tikzpicture} ... one \\end{tikzpicture}. Machine-checked: every generated statement template, instantiated with brace-balanced hole values, is brace-balanced, never closes below depth 0 "
              "and (picture statements) ends with ';'; lines joined by newlines stay balanced; render assembles definitions, colour definitions, then one "
              "tikzpicture; interned colour indexes are below the number of definitions and name the right colour; after propagation a node's colour is that "
              "of its nearest coloured ancestor-or-self (pre-fix loop refuted); escape = character-wise map, injective, adds no brace; labels list the escaped "
              "families in order; greedy wrapping keeps the words, respects the width except for single long words; balanced_wrap keeps the greedy line count "
              "and has minimal badness among the widths tried. Correspondence: rendered output of sampled reconciliations is parsed line by line against the "
              "generated templates and compared with the model's statement sequence, colour indexes and labels.")
LEVEL_NOTE = ("Partial: textwrap's greedy behaviour, the layout's branch order and the number formatting of coordinates are assumptions/samples, "
              "not theorems about the Python code. Finding (reported, not a violation of the property text): tex.escape turns a backslash "
              "into \\\\, which TeX reads as a line break, the same token balanced labels use for wrapped lines.")

# ---------------------------------------------------------------------------
# Coq side

HEADER = r"""From Coq Require Import String Ascii.
From SR Require Import Model.Escape Model.Wrap Model.Colour Model.Tikz Gen.TikzTemplates.
Open Scope string_scope.
Open Scope list_scope.
Definition nls : string := String "010"%char EmptyString.
Definition ostr_eqb (a b : option string) : bool :=
  match a, b with Some x, Some y => String.eqb x y | None, None => true | _, _ => false end.
Definition onat_eqb (a b : option nat) : bool :=
  match a, b with Some x, Some y => Nat.eqb x y | None, None => true | _, _ => false end.
Definition olist_eqb {A} (f : A -> A -> bool) (a b : option (list A)) : bool :=
  match a, b with Some x, Some y => list_eqb f x y | None, None => true | _, _ => false end.
Definition cand := (nat * option nat * option string * list string)%type.
Definition expline := (list cand * string)%type.
Definition line_agrees (m : oline) (e : expline) : bool :=
  let '(tid, ci, lab) := m in
  existsb (fun c : cand => let '(t, ci', lab', vals) := c in
             Nat.eqb tid t && onat_eqb ci ci' && ostr_eqb lab lab'
             && ostr_eqb (inst_entry templates tid vals) (Some (snd e))) (fst e).
Fixpoint all2 {A B} (f : A -> B -> bool) (a : list A) (b : list B) : bool :=
  match a, b with [], [] => true | x :: a', y :: b' => f x y && all2 f a' b' | _, _ => false end.
Definition render_eqb (m : option (list oline)) (e : option (list expline)) : bool :=
  match m, e with Some x, Some y => all2 line_agrees x y | None, None => true | _, _ => false end.
Definition run_render (c : bool * option nat * option nat * rose odata * list (bool * string * list rbranch)) :=
  let '(v, ew, sw, t, spp) := c in render_full templates skeleton layer_names v ew sw t spp.
Definition dflt (c : option string) : string := match c with Some x => x | None => default_colour end.
Definition run_colour (c : rose (option string) * list path * list path * list path) :=
  let '(t, nodes, branches, pseudo) := c in
  (map (node_colour t) nodes, map (fun p => dflt (node_colour t p)) branches, map (fun p => dflt (pseudo_colour t p)) pseudo).
Definition colour_eqb (a b : list (option string) * list string * list string) : bool :=
  let '(a1, a2, a3) := a in let '(b1, b2, b3) := b in
  list_eqb ostr_eqb a1 b1 && list_eqb String.eqb a2 b2 && list_eqb String.eqb a3 b3.
Definition run_wrap (c : string * nat) := (tw_wrap_s (fst c) (snd c), balanced_wrap_s (fst c) (snd c)).
Definition wrap_eqb (a b : option (list string) * option string) : bool :=
  olist_eqb String.eqb (fst a) (fst b) && ostr_eqb (snd a) (snd b).
"""


def cs(s: str) -> str:
    """Gallina string literal (newlines allowed)."""
    if "\n" in s:
        return "(String.concat nls [" + "; ".join(cs(x) for x in s.split("\n")) + "])"
    assert all(32 <= ord(c) < 127 for c in s), s
    return '"' + s.replace('"', '""') + '"'


def cpath(p) -> str:
    return clist(cnat(i) for i in p)


# ---------------------------------------------------------------------------
# implementation access (stub TeX measurer)

_IMPL = None


def _impl():
    global _IMPL
    if _IMPL is None:
        from ete3 import TreeNode
        from superrec2.utils import tex, text
        from superrec2.render import layout, tikz
        from superrec2.render.model import DrawParams, Orientation, PseudoGene
        from superrec2.model import reconciliation as R
        from superrec2.utils.trees import LowestCommonAncestor
        import textwrap
        _IMPL = dict(TreeNode=TreeNode, tex=tex, text=text, layout=layout, tikz=tikz, DrawParams=DrawParams, Orientation=Orientation,
                     PseudoGene=PseudoGene, R=R, LCA=LowestCommonAncestor, textwrap=textwrap)
    return _IMPL


def _build(spec, TreeNode, path=(), index=None):
    n = TreeNode(name=spec["name"])
    if index is not None:
        index[path] = n
    for i, k in enumerate(spec.get("kids", [])):
        n.add_child(_build(k, TreeNode, path + (i,), index))
    return n


def _walk(spec, path=()):
    yield path, spec
    for i, k in enumerate(spec.get("kids", [])):
        yield from _walk(k, path + (i,))


_OBS: dict = {}


def observe(case):
    """Run layout.compute + tikz.render on the case; memoised."""
    key = core.case_key(case)
    if key in _OBS:
        return _OBS[key]
    if case.get("prime"):
        # history independence: the same reconciliation, rebuilt, is drawn first with other wrap widths in this
        # very process; whatever the package remembers from that drawing must not leak into the one observed
        pc = {k: v for k, v in case.items() if k != "prime"}
        pc["ewidth"], pc["swidth"] = case["prime"]
        observe(pc)
    I = _impl()
    R, tex = I["R"], I["tex"]
    sidx, oidx = {}, {}
    st = _build(case["species"], I["TreeNode"], (), sidx)
    ot = _build(case["object"], I["TreeNode"], (), oidx)
    opath = {n: p for p, n in oidx.items()}
    mapping, syn = {}, {}
    for p, spec in _walk(case["object"]):
        mapping[oidx[p]] = sidx[tuple(spec["sp"])]
        if spec.get("col") is not None:
            oidx[p].add_feature("color", spec["col"])
        if spec.get("syn") is not None:
            syn[oidx[p]] = list(spec["syn"])
    leaf_map = {n: mapping[n] for n in ot.iter_leaves()}
    lca = I["LCA"](st)
    if case["labelled"]:
        rec = R.SuperReconciliationOutput(R.SuperReconciliationInput(ot, lca, leaf_map), mapping, syn, True)
    else:
        rec = R.ReconciliationOutput(R.ReconciliationInput(ot, lca, leaf_map), mapping)
    orient = I["Orientation"].VERTICAL if case["vertical"] else I["Orientation"].HORIZONTAL
    params = I["DrawParams"](orientation=orient, event_label_width=case["ewidth"], species_label_width=case["swidth"])
    srng = random.Random(case["size_seed"])
    measured = []

    def stub(texts, preamble=""):
        texts = list(texts)
        measured.extend(texts)
        return [tex.MeasureBox(srng.randint(1, 200) / 2, srng.randint(1, 100) / 2, srng.randint(0, 100) / 2) for _ in texts]

    out = {"error": None, "text": None, "species": [], "node_feature": [], "measured": measured}
    saved = tex.measure
    tex.measure = stub
    try:
        valid = all(rec.node_event(n) != R.NodeEvent.INVALID for n in ot.traverse())
        out["valid"] = valid
        L = I["layout"].compute(rec, params)
        out["text"] = I["tikz"].render(rec, L, params)
    except Exception as e:  # noqa: BLE001 - mapped to a small enum
        out["error"] = type(e).__name__
        _OBS[key] = out
        return out
    finally:
        tex.measure = saved
    where = {}
    for s in st.traverse("preorder"):
        for g, br in L[s].branches.items():
            where[g] = br
    for s in st.traverse("preorder"):
        brs = []
        for g, br in L[s].branches.items():
            cur, pseudo = g, False
            while not isinstance(cur, I["TreeNode"]):
                pseudo = True
                b = where[cur]
                cur = b.left if b.left is not None else b.right
            xless = ygreater = False
            if br.kind == R.NodeEvent.HORIZONTAL_TRANSFER:
                pos, fpos = br.rect.center(), L[mapping[br.right]].anchors[br.right]
                xless, ygreater = pos.x < fpos.x, pos.y > fpos.y
            brs.append({"kind": br.kind.name, "anch": g in L[s].anchors, "rnone": br.right is None, "xless": xless, "ygreater": ygreater,
                        "pseudo": pseudo, "path": list(opath[cur]), "color": br.color, "name": br.name})
        out["species"].append({"leaf": s.is_leaf(), "name": s.name, "branches": brs})
    out["node_feature"] = [[list(p), getattr(oidx[p], "color", None)] for p, _ in _walk(case["object"])]
    _OBS[key] = out
    if len(_OBS) > 20000:
        _OBS.clear()
    return out


# ---------------------------------------------------------------------------
# templates on the Python side (for parsing the rendered text)

_TPL = None
HOLE_RE = {"Coord": r"(-?[0-9.e+-]+,-?[0-9.e+-]+)", "ColourName": r"([A-Za-z]+\d+)", "ColourIndex": r"(\d+)", "ColourHtml": r"([0-9A-Za-z]*)",
           "Label": r"(.*)", "Param": r"([^{}\n]*)", "LayerName": r"(.*)"}


def templates():
    global _TPL
    if _TPL is None:
        from translator import tikz_templates as T
        try:
            data = T.extract(core.REPO / "src/superrec2/render/tikz.py")
        except core.TranslatorAbort:
            data = {"entries": []}
        _TPL = []
        for e in data["entries"]:
            rx = "".join(re.escape(p) if isinstance(p, str) else HOLE_RE[p.kind] for p in e["items"])
            _TPL.append({"id": e["id"], "site": e["site"], "holes": [p.kind for p in e["items"] if not isinstance(p, str)],
                         "re": re.compile(rx, re.S)})
    return _TPL


def pre_build(ctx):
    from translator import tikz_templates as T
    changed = T.generate(core.REPO)
    ctx.notes.append("Gen/TikzTemplates.v " + ("regenerated (content changed)" if changed else "unchanged"))


def parse_text(text):
    """Split the rendered text into lines and match each against the generated templates."""
    lines = text.split("\n")
    k = next((i for i, l in enumerate(lines) if l.startswith("\\definecolor") or l == "\\begin{tikzpicture}"), len(lines))
    chunks = ["\n".join(lines[:k])] + lines[k:]
    out = []
    for ch in chunks:
        cands = []
        for t in templates():
            if t["site"] in ("SMeasure", "SColourName"):
                continue
            m = t["re"].fullmatch(ch)
            if not m:
                continue
            colour = label = None
            for kind, v in zip(t["holes"], m.groups()):
                if kind in ("ColourName", "ColourIndex"):
                    colour = int(re.search(r"\d+$", v).group(0))
                elif kind in ("Label", "ColourHtml", "LayerName"):
                    label = v
            cands.append([t["id"], colour, label, list(m.groups())])
        out.append([cands, ch])
    return out


# ---------------------------------------------------------------------------
# independent oracle, written from the property text

def o_escape(s):
    return "".join({"\\": "\\\\", "_": "\\_"}.get(c, c) for c in s)


def o_greedy_lines(words, width):
    n, cur = 0, None
    for w in words:
        if cur is None or cur + 1 + len(w) > width:
            n, cur = n + 1, len(w)
        else:
            cur += 1 + len(w)
    return n


def o_unwrap(shown, flat, sep):
    """`shown` must be `flat` with some spaces replaced by `sep`; returns the lines or None."""
    lines, cur, j = [], "", 0
    for ch in flat:
        if ch == " " and shown.startswith(sep, j):
            lines.append(cur); cur = ""; j += len(sep)
        elif j < len(shown) and shown[j] == ch:
            cur += ch; j += 1
        else:
            return None
    return lines + [cur] if j == len(shown) else None


def o_wrapped_ok(shown, flat, width, sep):
    if width is None:
        return (shown == flat), f"unwrapped label should be {flat!r}, got {shown!r}"
    lines = o_unwrap(shown, flat, sep)
    if lines is None:
        return False, f"label {shown!r} does not list the words of {flat!r} in order"
    for l in lines:
        if len(l) > width and " " in l:
            return False, f"line {l!r} exceeds width {width} and has more than one word"
    g = o_greedy_lines(flat.split(" "), width)
    if len(lines) > g:
        return False, f"{len(lines)} lines, greedy wrapping needs {g}"
    return True, "ok"


def o_brace_group(s, i):
    """s[i] == '{' -> (content, index after the matching '}') or None."""
    if i >= len(s) or s[i] != "{":
        return None
    d = 0
    for j in range(i, len(s)):
        d += (s[j] == "{") - (s[j] == "}")
        if d == 0:
            return s[i + 1:j], j + 1
    return None


def o_nearest_colour(case, path):
    col, spec = None, case["object"]
    if spec.get("col") is not None:
        col = spec["col"]
    for i in path:
        spec = spec["kids"][i]
        if spec.get("col") is not None:
            col = spec["col"]
    return col


def o_spec_at(tree, path):
    for i in path:
        tree = tree["kids"][i]
    return tree


def oracle_render(case, result):
    if not (case["ewidth"] is None or case["ewidth"] >= 1) or not (case["swidth"] is None or case["swidth"] >= 1):
        return True, "wrap width below 1: outside the property's domain"
    for p, spec in _walk(case["object"]):
        if not spec.get("kids") and not spec.get("syn") and spec["name"] and "_" not in spec["name"]:
            return True, "leaf name without underscore: outside the property's domain"
    obs = observe(case)
    if not obs.get("valid", False):
        return True, "not a valid reconciliation: outside the property's domain"
    if obs["error"]:
        return False, f"rendering a valid reconciliation raised {obs['error']}"
    text = obs["text"]
    # balanced braces
    d = 0
    for ch in text:
        d += (ch == "{") - (ch == "}")
        if d < 0:
            return False, "a brace closes below depth 0"
    if d != 0:
        return False, f"{d} unclosed brace(s)"
    # a single picture environment
    if text.count("\\begin{tikzpicture}") != 1 or text.count("\\end{tikzpicture}") != 1 or text.count("\\begin{") != 1 or text.count("\\end{") != 1:
        return False, "not exactly one tikzpicture environment"
    pre, rest = text.split("\\begin{tikzpicture}")
    body, post = rest.split("\\end{tikzpicture}")
    if post.strip():
        return False, "text after the picture"
    defined = dict(re.findall(r"\\definecolor\{([^{}]*)\}\{HTML\}\{([^{}]*)\}", pre))
    # statements, all terminated
    body = "\n".join(l for l in body.split("\n") if not l.lstrip().startswith("%"))
    stmts, cur, d = [], "", 0
    for ch in body:
        d += (ch == "{") - (ch == "}")
        cur += ch
        if ch == ";" and d == 0:
            stmts.append(cur.strip()); cur = ""
    if cur.strip():
        return False, f"unterminated statement: {cur.strip()[:80]!r}"
    for s in stmts:
        if not re.match(r"\\(path|node)\[", s) or len(re.findall(r"\\(?:path|node)\[", s)) != 1:
            return False, f"statement is not one terminated \\path/\\node: {s[:100]!r}"
    # colours defined before use
    for name in set(re.findall(r"reccolor\d+", body)):
        if name not in defined:
            return False, f"{name} is used but not defined before the picture"
    # nodes: colour scope and labels, aligned with the layout's branches
    nodes = [s for s in stmts if s.startswith("\\node[")]
    branches = [(sp, b) for sp in obs["species"] for b in sp["branches"]]
    if len(nodes) != len(branches):
        return False, f"{len(nodes)} node statements for {len(branches)} branches"
    sep = "\\\\"
    for s, (sp, b) in zip(nodes, branches):
        m = re.match(r"\\node\[([a-z ]+)=", s)
        g = o_brace_group(s, m.end()) if m else None
        if g is None:
            return False, f"cannot read node statement {s[:100]!r}"
        colname, i = g
        shown = None
        if m.group(1) == "extant gene":
            g2 = o_brace_group(s, i)
            if g2 is None:
                return False, f"cannot read leaf label in {s[:100]!r}"
            shown, i = g2
        m2 = re.match(r"\] at \([^()]*\) ", s[i:])
        g3 = o_brace_group(s, i + m2.end()) if m2 else None
        if g3 is None or s[g3[1]:] != ";":
            return False, f"cannot read node statement {s[:100]!r}"
        if shown is None:
            shown = g3[0]
        want_col = o_nearest_colour(case, b["path"]) or "000000"
        if defined.get(colname) != want_col:
            return False, (f"{'loss on the lineage of ' if b['pseudo'] else ''}object node {b['path']} is drawn with colour {defined.get(colname)}, "
                           f"its nearest coloured ancestor-or-self gives {want_col}")
        if b["pseudo"]:
            want = ""
        else:
            spec = o_spec_at(case["object"], b["path"])
            leaf = not spec.get("kids")
            syn = spec.get("syn") if case["labelled"] else None
            psyn = o_spec_at(case["object"], b["path"][:-1]).get("syn") if (b["path"] and case["labelled"]) else None
            if syn:
                if not leaf and syn == psyn:
                    want = ""
                else:
                    if shown == "" or (shown == "\\phantom{-}" and b["kind"] == "HORIZONTAL_TRANSFER"):
                        return False, f"label of object node {b['path']} is omitted although its synteny {syn} differs from its parent's {psyn}"
                    ok, why = o_wrapped_ok(shown, ", ".join(o_escape(f) for f in syn), case["ewidth"], sep)
                    if not ok:
                        return False, f"object node {b['path']}: {why}"
                    continue
            elif leaf and spec["name"]:
                a, bb = spec["name"].rsplit("_", 1)
                want = o_escape(a) + "\\textsubscript{" + o_escape(bb) + "}"
            else:
                want = ""
        if shown != want and not (want == "" and shown == "\\phantom{-}" and b["kind"] == "HORIZONTAL_TRANSFER"):
            return False, f"object node {b['path']} shows {shown!r}, expected {want!r}"
    # species labels
    labs = re.findall(r"node\[species label\] ", body)
    leaves = [sp for sp in obs["species"] if sp["leaf"]]
    if len(labs) != len(leaves):
        return False, "species labels do not match the species leaves"
    pos = 0
    for sp in leaves:
        pos = body.index("node[species label] ", pos) + len("node[species label] ")
        g = o_brace_group(body, pos)
        if g is None:
            return False, "cannot read a species label"
        ok, why = o_wrapped_ok(g[0], o_escape(sp["name"]), case["swidth"], sep)
        if not ok:
            return False, f"species {sp['name']!r}: {why}"
    return True, "well-formed, colours and labels as the property demands"


# ---------------------------------------------------------------------------
# generators

NAME_CHARS = "abcXYZ0189" + "_" * 3 + "\\" * 3
COLOURS = ["ff0000", "00ff00", "0000ff", "AA5500", "000000", "123abc"]


def rand_name(rng, lo=1, hi=6, chars=NAME_CHARS):
    return "".join(rng.choice(chars) for _ in range(rng.randint(lo, hi)))


def shapes(n):
    """all ordered binary tree shapes with n leaves, as nested lists ([] = leaf)"""
    if n == 1:
        return [[]]
    return [[l, r] for k in range(1, n) for l in shapes(k) for r in shapes(n - k)]


def rand_shape(rng, n):
    if n == 1:
        return []
    k = rng.randint(1, n - 1)
    return [rand_shape(rng, k), rand_shape(rng, n - k)]


def paths_of(shape, p=()):
    yield p, shape
    for i, k in enumerate(shape):
        yield from paths_of(k, p + (i,))


def is_anc(a, b):  # a ancestor-or-equal of b
    return b[:len(a)] == a


def common(a, b):
    n = 0
    while n < len(a) and n < len(b) and a[n] == b[n]:
        n += 1
    return a[:n]


def options(l, r):
    """species a parent object node may be mapped to (the choice set of the exhaustive enumerator)"""
    lca = common(l, r)
    out = [lca[:k] for k in range(len(lca), -1, -1)]
    for t, o in ((l, r), (r, l)):
        if is_anc(o, t):
            continue
        s = t
        while s != lca:
            out.append(s); s = s[:-1]
    return out


def all_recs(oshape, leafmap, p=()):
    """every mapping {object path: species path} extending the leaf mapping"""
    if not oshape:
        yield {p: leafmap[p]}
        return
    for ml in all_recs(oshape[0], leafmap, p + (0,)):
        for mr in all_recs(oshape[1], leafmap, p + (1,)):
            for s in options(ml[p + (0,)], mr[p + (1,)]):
                yield {p: s, **ml, **mr}


def rand_rec(rng, oshape, leafmap, p=()):
    if not oshape:
        return {p: leafmap[p]}
    ml, mr = rand_rec(rng, oshape[0], leafmap, p + (0,)), rand_rec(rng, oshape[1], leafmap, p + (1,))
    opts = options(ml[p + (0,)], mr[p + (1,)])
    s = opts[0] if rng.random() < 0.45 else rng.choice(opts)
    return {p: s, **ml, **mr}


def decorate(rng, sshape, oshape, mapping, labelled, vertical):
    """names, colours, syntenies, widths, sizes around a reconciliation"""
    def sp(shape):
        return {"name": rand_name(rng, 0 if rng.random() < 0.05 else 1, rng.choice([3, 6, 14])), "kids": [sp(k) for k in shape]}
    pool = [rand_name(rng, 1, rng.choice([2, 4, 7])) for _ in range(12)]
    pcol = rng.choice([0.0, 0.15, 0.3, 0.6])

    def ob(shape, p, psyn):
        syn = None
        if labelled and rng.random() < 0.93:
            if psyn is not None and rng.random() < 0.4:
                syn = list(psyn)
            elif psyn is not None and psyn and rng.random() < 0.6:
                syn = [f for f in psyn if rng.random() < 0.7]
            else:
                syn = [rng.choice(pool) for _ in range(rng.randint(0, 12))]
        if shape:
            name = rand_name(rng, 0, 4)
        elif rng.random() < 0.02:
            name = rand_name(rng, 1, 4, "abX\\")       # no underscore: the code raises when it needs the name
        elif rng.random() < 0.03:
            name = ""
        else:
            name = rand_name(rng, 1, 5) + "_" + rand_name(rng, 0, 3, "ab019\\")
        col = rng.choice(COLOURS) if rng.random() < pcol else None
        return {"name": name, "col": col, "syn": syn, "sp": list(mapping[p]),
                "kids": [ob(k, p + (i,), syn) for i, k in enumerate(shape)]}
    w = lambda: None if rng.random() < 0.08 else rng.randint(1, 30)
    return {"species": sp(sshape), "object": ob(oshape, (), None), "labelled": labelled, "vertical": vertical,
            "ewidth": w(), "swidth": w(), "size_seed": rng.randrange(1 << 30),
            "prime": [w(), w()] if rng.random() < 0.35 else None}


def render_cases(ctx):
    rng = ctx.rng
    small, stats = [], {"small_inputs": 0, "small_recs": 0}
    smax, omax = (3, 3) if ctx.quick() else (3, 4)
    for sn in range(1, smax + 1):
        for sshape in shapes(sn):
            sleaves = [p for p, s in paths_of(sshape) if not s]
            for on in range(1, omax + 1):
                for oshape in shapes(on):
                    oleaves = [p for p, s in paths_of(oshape) if not s]
                    for assign in itertools.product(sleaves, repeat=len(oleaves)):
                        stats["small_inputs"] += 1
                        for m in all_recs(oshape, dict(zip(oleaves, assign))):
                            stats["small_recs"] += 1
                            small.append((sn, on, sshape, oshape, m))
    core_part = [x for x in small if x[0] <= 2 and x[1] <= 3]
    rest = [x for x in small if not (x[0] <= 2 and x[1] <= 3) and x[1] <= 3]
    big = [x for x in small if x[1] > 3]
    if ctx.quick():
        rest = rng.sample(rest, min(len(rest), 160))
    else:
        rest = rest + rng.sample(big, min(len(big), 3000))
    cases = []
    for sn, on, sshape, oshape, m in core_part + rest:
        cases.append(decorate(rng, sshape, oshape, m, rng.random() < 0.6, rng.random() < 0.5))
    stats["small_used"] = len(cases)
    for _ in range(170 if ctx.quick() else 4000):
        sn, on = rng.randint(2, 7), rng.randint(2, 10)
        sshape, oshape = rand_shape(rng, sn), rand_shape(rng, on)
        sleaves = [p for p, s in paths_of(sshape) if not s]
        oleaves = [p for p, s in paths_of(oshape) if not s]
        m = rand_rec(rng, oshape, {p: rng.choice(sleaves) for p in oleaves})
        cases.append(decorate(rng, sshape, oshape, m, rng.random() < 0.6, rng.random() < 0.5))
    return cases, stats


KIND = {"LEAF": "KLeaf", "SPECIATION": "KSpe", "DUPLICATION": "KDup", "HORIZONTAL_TRANSFER": "KTr", "FULL_LOSS": "KLoss"}


def enc_otree(spec, labelled):
    syn = spec.get("syn") if labelled else None
    return (f"(RNode (mkO {copt(None if spec.get('col') is None else cs(spec['col']))} {cs(spec['name'])} "
            f"{copt(None if syn is None else clist(map(cs, syn)))}) {clist(enc_otree(k, labelled) for k in spec.get('kids', []))})")


def enc_ctree(spec):
    return f"(RNode {copt(None if spec.get('col') is None else cs(spec['col']))} {clist(enc_ctree(k) for k in spec.get('kids', []))})"


def batches(ctx):
    I = _impl()
    rng = ctx.rng
    replay = getattr(ctx, "replay_case", None)

    # ---- (a) escape ------------------------------------------------------------
    ecases = ["".join(t) for n in range(0, 6 if ctx.quick() else 7) for t in itertools.product("a_\\{}", repeat=n)]
    for _ in range(1500 if ctx.quick() else 20000):
        ecases.append(rand_name(rng, 0, 24, "abcXYZ0189__\\\\\\{} ,-"))
    ctx.dist["escape"] = {"cases": len(ecases), "with_backslash_then_underscore": sum("\\_" in s for s in ecases)}
    yield Batch(
        name="escape", header=HEADER, run="escape_s", eqb="String.eqb", ty_in="string", ty_out="string",
        cases=ecases, impl=lambda s: I["tex"].escape(s), enc_in=cs, enc_out=lambda c, r: cs(r),
        oracle=lambda c, r: (r == o_escape(c), f"escaping {c!r} should give {o_escape(c)!r}, got {r!r}"),
        nontrivial=lambda c, r: "_" in c or "\\" in c, exhaustive=False, shard=3000,
        describe="every string up to length 5 (quick) / 6 over {a,_,\\,{,}} and random strings up to length 24")

    # ---- (b) wrapping ----------------------------------------------------------------
    wcases = []
    for n in range(0, 5):
        for lens in itertools.product(range(1, 5), repeat=n):
            words = ["abcdefgh"[i] * l for i, l in enumerate(lens)]
            for w in range(0, 11):
                wcases.append([words, w])
    for _ in range(2500 if ctx.quick() else 40000):
        n = rng.randint(1, 14)
        words = [rand_name(rng, 1, rng.choice([2, 5, 9, 16]), "abcXYZ0189_\\") + ("," if i < n - 1 and rng.random() < 0.8 else "") for i in range(n)]
        wcases.append([words, rng.randint(1, 30)])
    tw = I["textwrap"]

    def impl_wrap(c):
        text = " ".join(c[0])
        try:
            a = tw.wrap(text, c[1], break_long_words=False)
        except ValueError:
            a = None
        try:
            b = I["text"].balanced_wrap(text, c[1])
        except ValueError:
            b = None
        return [a, b]

    def oracle_wrap(c, r):
        if c[1] < 1 or not c[0]:
            return True, "width below 1 or empty text: outside the property's domain"
        if r[1] is None:
            return False, "balanced_wrap raised on a text of words"
        return o_wrapped_ok(r[1], " ".join(c[0]), c[1], "\n")

    ctx.dist["wrap"] = {"cases": len(wcases), "with_overlong_word": sum(any(len(x) > c[1] for x in c[0]) for c in wcases)}
    yield Batch(
        name="wrap", header=HEADER, run="run_wrap", eqb="wrap_eqb", ty_in="string * nat", ty_out="option (list string) * option string",
        cases=wcases, impl=impl_wrap, enc_in=lambda c: cpair(cs(" ".join(c[0])), cnat(c[1])),
        enc_out=lambda c, r: cpair(copt(None if r[0] is None else clist(map(cs, r[0]))), copt(None if r[1] is None else cs(r[1]))),
        oracle=oracle_wrap, nontrivial=lambda c, r: len(c[0]) >= 2 and r[0] is not None and len(r[0]) >= 2,
        exhaustive=False, shard=1500,
        describe="all lists of <=4 words of lengths 1-4 x widths 0-10 (exhaustive on that domain); random lists of <=14 words (lengths <=16, commas) x widths 1-30")

    # ---- (c), (d): reconciliations ------------------------------------------------------
    rcases, stats = render_cases(ctx)
    if replay is not None and isinstance(replay, dict) and "object" in replay:
        rcases = [replay]
    kinds = {}
    ok_cases = []
    for c in rcases:
        o = observe(c)
        if not o.get("valid", False):
            stats["invalid_skipped"] = stats.get("invalid_skipped", 0) + 1
            continue
        ok_cases.append(c)
        for sp in o["species"]:
            for b in sp["branches"]:
                kinds[b["kind"]] = kinds.get(b["kind"], 0) + 1
    stats.update({"cases": len(ok_cases), "branch_kinds": kinds, "labelled": sum(c["labelled"] for c in ok_cases),
                  "vertical": sum(c["vertical"] for c in ok_cases), "raised": sum(1 for c in ok_cases if observe(c)["error"]),
                  "with_nested_colours": sum(1 for c in ok_cases if any(s.get("col") and any(k.get("col") for _, k in list(_walk(s))[1:]) for _, s in _walk(c["object"])))})
    ctx.dist["reconciliations"] = stats

    def impl_colour(c):
        o = observe(c)
        if o["error"]:
            return {"error": o["error"]}
        brs = [b for sp in o["species"] for b in sp["branches"]]
        return {"features": o["node_feature"], "node_branches": [[b["path"], b["color"]] for b in brs if not b["pseudo"]],
                "pseudo": [[b["path"], b["color"]] for b in brs if b["pseudo"]]}

    def oracle_colour(c, r):
        if "error" in r:
            return True, "layout raised: judged by the render batch"
        # the property speaks about what is DRAWN (the colour of every branch and loss marker); the `color` features
        # layout.compute happens to write on the caller's object tree are compared with the model but are not judged
        for p, col in r["node_branches"] + r["pseudo"]:
            if col != (o_nearest_colour(c, p) or "000000"):
                return False, f"branch of (or loss on the lineage of) object node {p} has colour {col}, expected {o_nearest_colour(c, p) or '000000'}"
        return True, "colours are those of the nearest coloured ancestor-or-self"

    def enc_colour_out(c, r):
        if "error" in r:
            return "([], [], [])"
        return cpair(clist(copt(None if col is None else cs(col)) for _, col in r["features"]),
                     clist(cs(col) for _, col in r["node_branches"]), clist(cs(col) for _, col in r["pseudo"]))

    def branch_paths(c, pseudo):
        return clist(cpath(b["path"]) for sp in observe(c)["species"] for b in sp["branches"] if b["pseudo"] == pseudo)

    ccases = [c for c in ok_cases if not observe(c)["error"]]
    yield Batch(
        name="colour", header=HEADER, run="run_colour", eqb="colour_eqb",
        ty_in="rose (option string) * list path * list path * list path", ty_out="list (option string) * list string * list string",
        cases=ccases, impl=impl_colour,
        enc_in=lambda c: cpair(enc_ctree(c["object"]), clist(cpath(p) for p, _ in _walk(c["object"])), branch_paths(c, False), branch_paths(c, True)),
        enc_out=enc_colour_out, oracle=oracle_colour,
        nontrivial=lambda c, r: any(s.get("col") and s.get("kids") for _, s in _walk(c["object"])),
        exhaustive=False, shard=400,
        describe="node colour features after layout.compute, colours recorded in the branches of object nodes and of loss pseudo-genes, on the reconciliations of the render batch")

    def impl_render(c):
        o = observe(c)
        if o["error"]:
            return {"error": o["error"]}
        return {"lines": parse_text(o["text"])}

    def enc_render_in(c):
        o = observe(c)
        spp = []
        for sp in o["species"]:
            rbs = [f"(mkRB {KIND[b['kind']]} {cbool(b['anch'])} {cbool(b['rnone'])} {cbool(b['xless'])} {cbool(b['ygreater'])} "
                   f"({'GPseudo' if b['pseudo'] else 'GNode'} {cpath(b['path'])}))" for b in sp["branches"]]
            spp.append(cpair(cbool(sp["leaf"]), cs(sp["name"]), clist(rbs)))
        if o["error"]:   # the layout could not be observed: the model is asked about the labels alone
            spp = [cpair(cbool(not s.get("kids")), cs(s["name"]), "[]") for _, s in _walk(c["species"])]
            spp[0:0] = [cpair("true", cs(""), clist(f"(mkRB KLeaf false true false false (GNode {cpath(p)}))" for p, _ in _walk(c["object"])))]
        w = lambda x: copt(None if x is None else cnat(x))
        return cpair(cbool(c["vertical"]), w(c["ewidth"]), w(c["swidth"]), enc_otree(c["object"], c["labelled"]), clist(spp))

    def enc_render_out(c, r):
        if "error" in r:
            return "None"
        def cand(x):
            return cpair(cnat(x[0]), copt(None if x[1] is None else cnat(x[1])), copt(None if x[2] is None else cs(x[2])), clist(map(cs, x[3])))
        return "(Some " + clist(cpair(clist(map(cand, cands)), cs(text)) for cands, text in r["lines"]) + ")"

    def nontrivial_render(c, r):
        specs = [s for _, s in _walk(c["object"])]
        return len(specs) >= 3 and "lines" in r and (any(s.get("col") for s in specs) or c["labelled"]
                                                     or any(b["pseudo"] for sp in observe(c)["species"] for b in sp["branches"]))

    yield Batch(
        name="render", header=HEADER, run="run_render", eqb="render_eqb",
        ty_in="bool * option nat * option nat * rose odata * list (bool * string * list rbranch)", ty_out="option (list expline)",
        cases=ok_cases, impl=impl_render, enc_in=enc_render_in, enc_out=enc_render_out, oracle=oracle_render,
        nontrivial=nontrivial_render, exhaustive=False, shard=40,
        describe=(f"layout.compute + tikz.render with a stub measurer on {stats['small_used']} of the {stats['small_recs']} valid reconciliations of the "
                  f"{stats['small_inputs']} small inputs (all of those with <=2 species leaves and <=3 object leaves; thorough: all up to 3x3 leaves, 3000 with 4 object leaves) "
                  "and random ones up to 7 species / 10 object leaves; "
                  "each output line is matched against the generated templates, re-instantiated in Coq, and the sequence of (template, colour index, text) "
                  "is compared with the model"))
