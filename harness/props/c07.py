"""C07 — LCA reconciliation is the unique optimum of the duplication-loss model."""
from __future__ import annotations

import itertools
import json

from ..core import Batch, cN, cZ, cbool, clist, copt, cpair
from .. import recon as R

ID = "C07"
LEVEL = "proof"
PROP_FILE = "Properties/C07.v"
PROOF_FILES = ["Proofs/ReviewCLcaBound.v", "Gen/ThlGen.v", "Proofs/ThlGenProofs.v", "Gen/TableGen.v", "Proofs/TableGenProofs.v", "Gen/EvalGen.v", "Proofs/EvalGenProofs.v", "Proofs/LcaNodeProofs.v", "Proofs/LcaProofs.v", "Proofs/ReconProofs.v", "Proofs/PathFacts.v", "Model/LcaRec.v", "Model/Recon.v", "Base/PathB.v", "Base/Ext.v"]
TRUSTED = ["translator translator/pyfun.py + translator/thl_gen.py: reconcile_lca of compute/reconciliation.py is translated into Gen/ThlGen.v on every run and proved to return the dictionary denoting Model/LcaRec.v's reconciliation (C07_gen_reconcile_lca_eq; object nodes = identifiers, the species LCA structure = the path operation lcp)", "models Model/LcaRec.v (reconcile_lca) and Model/Recon.v (cost evaluator) over bool root paths; "
           "that the implementation's ancestry queries are the path notions is property C17"]
ASSUMES = ["species trees are binary; object trees are binary"]
RULE = ("inputs = (species shape, object shape, leaf assignment, costs); exhaustive over small shapes and all assignments, random larger; "
        "non-trivial = at least one internal object node whose children map to comparable species (a duplication) or at least 3 object leaves")
OPEN_GOALS: list = []
TECHNIQUE = "Coq proof by induction on the object tree (strengthened inequality with its equality case, nia); model tied to reconcile_lca / reconcile_thl by exhaustive small inputs + random larger ones"
LEVEL_TEXT = ("Machine-checked for all binary trees and cost vectors with 0<=dup, 0<=floss, spe<=dup+2floss: reconcile_lca's model maps every node (C07_lca_mapping_every_node) to the LCA of its leaves' species, "
              "is valid and transfer-free, has minimum evaluator cost among all valid transfer-free reconciliations (among all valid ones when the transfer cost is infinite), "
              "and is the only optimum when floss>0. The model is compared with reconcile_lca (mapping and cost) and with reconcile_thl under an infinite transfer cost. reconcile_lca itself is translated into Gallina on every run (Gen/ThlGen.v) and proved to return the dictionary that denotes the model's reconciliation, for every binary object tree with distinct nodes (C07_gen_reconcile_lca_eq); that the bound on the speciation cost cannot be dropped is kernel-checked (C07_c07_spe_needed).")
LEVEL_NOTE = ("Trusted: Coq kernel; the translator (pyfun.py + thl_gen.py); hand-written models (proved equal to the generated reconcile_lca, and correspondence = differential testing); ancestry notions on paths (C17 ties them to the code). "
              "No axioms. The speciation cost is quantified as spe <= dup + 2*floss (0 by default), the region in which the claim is true.")

HEADER = R.RECON_HEADER + "From SR Require Import Model.LcaRec.\n"


def _gen_inputs(ctx, max_o, max_s, n_rand, rand_o, rand_s):
    rng = ctx.rng
    cases = []
    for ns in range(1, max_s + 1):
        for S in R.all_shapes(ns):
            sl = R.shape_leaves(S)
            for no in range(1, max_o + 1):
                for Osh in R.all_shapes(no):
                    for assign in itertools.product(sl, repeat=no):
                        it = iter(assign)

                        def fill(o):
                            return {"sp": next(it), "syn": []} if o == 0 else [fill(o[0]), fill(o[1])]
                        cases.append({"S": S, "O": fill(Osh)})
    for _ in range(n_rand):
        S = R.rand_shape(rng, rng.randint(1, rand_s))
        cases.append({"S": S, "O": R.rand_otree(rng, rng.randint(1, rand_o), R.shape_leaves(S))})
    # large species trees (deep caterpillars included): long Euler tours, queries over ranges of every length
    for _ in range(max(60, n_rand // 8)):
        ns = rng.randint(10, 28)
        if rng.random() < 0.4:
            S = 0
            for _k in range(ns - 1):
                S = [S, 0] if rng.random() < 0.5 else [0, S]
        else:
            S = R.rand_shape(rng, ns)
        cases.append({"S": S, "O": R.rand_otree(rng, rng.randint(2, 12), R.shape_leaves(S))})
    return cases


def pre_build(ctx):
    from translator import table_gen, thl_gen
    from .. import core
    changed = table_gen.regenerate(core.REPO)
    changed = thl_gen.regenerate(core.REPO) or changed
    ctx.notes.append("Gen/ThlGen.v (reconcile_lca) " + ("regenerated (content changed)" if changed else "regenerated: unchanged"))


def batches(ctx):
    rng = ctx.rng
    from superrec2.compute.reconciliation import reconcile_lca, reconcile_thl
    from superrec2.utils.dynamic_programming import RetentionPolicy

    base = _gen_inputs(ctx, 4, 3 if ctx.quick() else 4, 1500 if ctx.quick() else 8000, 9, 8)
    if not ctx.quick():
        rng.shuffle(base)
        base = base[:40000]
    cases = []
    for b in base:
        c = {"spe": 0, "dup": rng.randint(0, 5), "hgt": R.INF if rng.random() < 0.5 else rng.randint(0, 5), "floss": rng.randint(0, 5), "sloss": 1}
        cases.append({**b, "costs": c, "blank": rng.random() < 0.3})   # 30%: ancestors carry no names
        if rng.random() < 0.2:   # an LCA structure was built on the same species tree while children were in another order
            cases[-1]["prime_lca"] = True
        if rng.random() < 0.3:   # branch lengths / supports on both trees
            cases[-1]["dist"] = rng.randrange(1 << 30)
        if rng.random() < 0.3:   # same input object solved before while two subtrees hung elsewhere (recon.prime_topology)
            cases[-1]["prime"] = "topology"

    def impl(c):
        B = R.primed(c, reconcile_lca, blank_internal=c.get("blank", False))
        out = reconcile_lca(B.input)
        return {"sol": B.canon(out), "cost": R.ext_of(out.cost())}

    def oracle(c, r):
        orc = R.Oracle(c["S"])
        # property text: every internal node on the LCA of its leaves' species; valid; minimum among transfer-free
        def chk(sol, o):
            if isinstance(o, dict):
                return [o["sp"]], sol == o["sp"]
            la, oka = chk(sol[1], o[0]); lb, okb = chk(sol[2], o[1])
            leaves = la + lb
            l = leaves[0]
            for x in leaves[1:]:
                l = orc.lca(l, x)
            return leaves, oka and okb and sol[0] == l
        _, ok = chk(r["sol"], c["O"])
        if not ok:
            return False, "some node is not on the LCA of the species of its leaves"
        cc = dict(c["costs"], hgt=R.INF)
        m, sols = orc.best(c["O"], cc)
        mine = orc.cost_of(r["sol"], cc)
        if mine != m:
            return False, f"LCA reconciliation costs {mine}, a transfer-free reconciliation costs {m}"
        if c["costs"]["floss"] > 0 and sols != {json.dumps(r["sol"])}:
            return False, f"with positive loss cost the optimum should be unique; optimal set has {len(sols)} elements"
        return True, "LCA mapping, minimum and uniqueness as the property demands"

    def nontrivial(c, r):
        return len(R.otree_leaves(c["O"])) >= 3

    yield Batch(
        name="lca", header=HEADER,
        run="fun '(St, Ot, c) => let r := lca_rec Ot in (r, cost c Ot r)",
        eqb="fun a b => rtree_eqb (fst a) (fst b) && ext_eqb (snd a) (snd b)",
        ty_in="stree * otree * costs", ty_out="rtree * ext",
        cases=cases, impl=impl,
        enc_in=lambda c: R.cpair(R.enc_stree(c["S"]), R.enc_otree(c["O"]), R.enc_costs(c["costs"])),
        enc_out=lambda c, r: cpair(R.enc_rtree(r["sol"]), R.enc_ext(r["cost"])),
        oracle=oracle, nontrivial=nontrivial, exhaustive=False, shard=1500,
        describe="all species/object shapes up to the tier's size with every leaf assignment, random inputs up to 9 object / 8 species leaves; dup, floss in 0..5",
    )

    # inputs given in the documented dictionary form, leaf species inferred from the <species>_<id> names;
    # ancestral object nodes are unnamed or carry arbitrary names, some of which look like leaf names
    from superrec2.model.reconciliation import ReconciliationInput
    letters = "ABCDEFGHIJKLMNOP"
    dcases = []
    for b in rng.sample(base, min(len(base), 700 if ctx.quick() else 6000)):
        sl = R.shape_leaves(b["S"])
        spname = {p: (letters[i] if i < len(letters) else f"Z{i}") for i, p in enumerate(sl)}
        k = [0]

        def onw(o):
            if isinstance(o, dict):
                k[0] += 1
                return f"{spname[o['sp']]}_{k[0]}"
            k[0] += 1
            style = rng.random()
            name = "" if style < 0.4 else (f"N{k[0]}" if style < 0.7 else f"{rng.choice(list(spname.values()))}_h{k[0]}")
            return f"({onw(o[0])},{onw(o[1])}){name}"

        def snw(s, p=""):
            if s == 0:
                return spname[p]
            nm = "" if rng.random() < 0.5 else "S" + (p or "r")
            return f"({snw(s[0], p + '0')},{snw(s[1], p + '1')}){nm}"
        dcases.append({"S": b["S"], "O": b["O"], "object_tree": onw(b["O"]) + ";", "species_tree": snw(b["S"]) + ";"})

    def impl_dict(c):
        inp = ReconciliationInput.from_dict({"object_tree": c["object_tree"], "species_tree": c["species_tree"]})
        out = reconcile_lca(inp)
        by_id = R.node_paths(inp.species_lca.tree)

        def go(n):
            s = by_id[out.object_species[n]]
            return s if n.is_leaf() else [s, go(n.children[0]), go(n.children[1])]
        return {"sol": go(inp.object_tree), "cost": R.ext_of(out.cost())}

    yield Batch(
        name="lca_from_dict", header=HEADER,
        run="fun '(St, Ot, c) => let r := lca_rec Ot in (r, cost c Ot r)",
        eqb="fun a b => rtree_eqb (fst a) (fst b) && ext_eqb (snd a) (snd b)",
        ty_in="stree * otree * costs", ty_out="rtree * ext",
        cases=dcases, impl=impl_dict,
        enc_in=lambda c: R.cpair(R.enc_stree(c["S"]), R.enc_otree(c["O"]), R.enc_costs(R.default_costs())),
        enc_out=lambda c, r: cpair(R.enc_rtree(r["sol"]), R.enc_ext(r["cost"])),
        oracle=lambda c, r: oracle({**c, "costs": R.default_costs()}, r), nontrivial=nontrivial, exhaustive=False, shard=1500,
        describe="inputs built through ReconciliationInput.from_dict from Newick strings (leaf species inferred from names; ancestors unnamed, neutrally named or named like leaves), default costs",
    )

    # reconcile_thl with transfers forbidden returns exactly {lca_rec} when floss > 0
    tcases = []
    for b in rng.sample(base, min(len(base), 1200 if ctx.quick() else 8000)):
        if len(R.otree_leaves(b["O"])) > 7:
            continue
        c = {"spe": 0, "dup": rng.randint(0, 5), "hgt": R.INF, "floss": rng.randint(1, 5), "sloss": 1}
        tcases.append({**b, "costs": c})

    def impl_thl(c):
        B = R.Built(c["S"], c["O"], c["costs"])
        res = reconcile_thl(B.input, RetentionPolicy.ALL)
        return sorted((B.canon(o) for o in res), key=json.dumps)

    def oracle_thl(c, r):
        orc = R.Oracle(c["S"])
        m, sols = orc.best(c["O"], c["costs"])
        if {json.dumps(x) for x in r} != sols or len(r) != 1:
            return False, f"general solver with infinite transfer cost returned {len(r)} solutions; the unique optimum is {sorted(sols)}"
        return True, "unique LCA optimum returned"

    yield Batch(
        name="thl_inf", header=HEADER,
        run="fun '(St, Ot, c) => [lca_rec Ot]",
        eqb="set_eqb rtree_eqb",
        ty_in="stree * otree * costs", ty_out="list rtree",
        cases=tcases, impl=impl_thl,
        enc_in=lambda c: R.cpair(R.enc_stree(c["S"]), R.enc_otree(c["O"]), R.enc_costs(c["costs"])),
        enc_out=lambda c, r: clist(R.enc_rtree(x) for x in r),
        oracle=oracle_thl, nontrivial=nontrivial, exhaustive=False, shard=1500,
        describe="reconcile_thl(ALL) with infinite transfer cost and floss>0 must return exactly the LCA reconciliation",
    )
