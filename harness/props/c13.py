"""C13 — a diagram shows exactly the events the cost model counts."""
from __future__ import annotations

import itertools
import json
import re
from fractions import Fraction

from .. import recon
from ..core import Batch, cN, cZ, cbool, clist, cnat, copt, cpair

ID = "C13"
LEVEL = "proof"
PROP_FILE = "Properties/C13.v"
PROOF_FILES = ["Proofs/BranchesProofs.v", "Model/Branches.v", "Proofs/ReconProofs.v", "Proofs/PathFacts.v",
               "Model/Recon.v", "Base/PathB.v"]
TRUSTED = [
    "model Model/Branches.v of render/layout.py:_add_losses/_compute_branches: the insertions into the per-species "
    "branch dicts and the add/remove operations on anchor_nodes, listed in the order the two nested post-order loops "
    "perform them; anchors identified by (object-node root path, position in the loss chain)",
    "model Model/Recon.v of ReconciliationOutput.node_event (shared with C06) and the loss lists of Proofs/ReconProofs.v "
    "(cost_recount: the evaluator's cost is the recount over these lists)",
]
ASSUMES = [
    "the TeX measurer returns one box per input string, in order (replaced by a stub in this check; TeX is absent)",
    "binary species and object trees (children[0]/children[1] = first/second child), as ReconciliationOutput requires",
    "ete3 traverse('postorder'/'preorder') orders; dict insertion order",
]
RULE = ("cases = (species tree, object tree with leaf species, valid reconciliation from an independent enumerator, "
        "plain/ordered/unordered labelling, orientation, stub node sizes, DrawParams values); exhaustive over all inputs and all "
        "their valid reconciliations up to 3 object leaves x 3 species leaves, a seeded sample of inputs with 4 (thorough: 4-5) "
        "leaves with every valid reconciliation of each (capped), random ones up to 10 object leaves; "
        "non-trivial = the reconciliation has at least one full loss and at least one duplication or transfer")
OPEN_GOALS: list = []
TECHNIQUE = ("Coq proofs (structural induction on the reconciliation, permutation of the species-major operation order into the "
             "object post-order, positional well-formedness of anchor removals) about an executable model of _compute_branches; "
             "model tied to layout.compute/tikz.render by exhaustive-small + random correspondence evaluated with vm_compute")
LEVEL_TEXT = ("Machine-checked for every species tree, object tree and valid reconciliation (any size): the model's operation list is "
              "defined (no exception); in every species the real-gene branches are exactly the object nodes mapped to it, each with the "
              "kind the evaluator's event assigns (one branch per node: node paths are distinct); the species holding FULL_LOSS branches "
              "are a permutation of the evaluator's loss list all_losses (so their number is the full-loss count of cost_recount); every "
              "transfer branch points with `right` to the transferred child (the one not below the parent's species), with `left` to the "
              "conserved lineage; every anchor a branch dereferences at drawing time exists (speciation/loss children in the child "
              "species' anchor set, duplication/transfer children among the same species' branches, transfer target in the anchor set of "
              "the transferred child's species).")
LEVEL_NOTE = ("Trusted: Coq kernel; the hand-written model (correspondence = differential testing on the explored domain). "
              "The clauses 'exactly one \\node per branch' and 'exactly one transfer arrow per transfer' of the generated drawing are NOT "
              "theorems here: the template-level statements over Gen/TikzTemplates.v belong to C15's translator; this check covers them in "
              "the correspondence by counting \\node[...] and \\path[transfer branch=...] statements in the text returned by tikz.render "
              "against the model's branch records, and by the independent oracle. The stub measurer replaces TeX; the association of "
              "measured sizes to nodes is exercised by C14 (positions), not here.")

KINDS = ["LEAF", "SPECIATION", "DUPLICATION", "HORIZONTAL_TRANSFER", "FULL_LOSS"]
NUMERIC_PARAMS = ["species_branch_padding", "gene_branch_spacing", "trunk_overhead", "min_subtree_spacing", "level_spacing",
                  "species_leaf_spacing", "species_label_spacing", "extant_gene_diameter", "loss_size", "speciation_size",
                  "duplication_size", "transfer_size"]
LAYOUT_PARAMS = NUMERIC_PARAMS[:5]
DEFAULT_PARAMS2 = {"species_branch_padding": 8, "gene_branch_spacing": 10, "trunk_overhead": 20, "min_subtree_spacing": 24,
                   "level_spacing": 8, "species_leaf_spacing": 2, "species_label_spacing": 20, "extant_gene_diameter": 6,
                   "loss_size": 6, "speciation_size": 16, "duplication_size": 16, "transfer_size": 16}   # in half units

HEADER = recon.RECON_HEADER + """From SR Require Import Model.Branches.
Definition nat_of_kind (k : kind) : nat := match k with KLeaf => 0 | KSpe => 1 | KDup => 2 | KTr => 3 | KLoss => 4 end.
Definition brec := (anchor * nat * option anchor * option anchor)%type.
Definition show_b (b : branch) : brec := (b_id b, nat_of_kind (b_kind b), b_left b, b_right b).
Definition count_kind (n : nat) (l : list (path * (list branch * list anchor))) : nat :=
  length (filter (fun b => Nat.eqb (nat_of_kind (b_kind b)) n) (flat_map (fun e => fst (snd e)) l)).
Definition out13 := option (list (path * list brec * list anchor) * list nat).
Definition run13 (x : stree * rtree) : out13 :=
  match branches (fst x) (snd x) with
  | Some l => Some (map (fun e => (fst e, map show_b (fst (snd e)), snd (snd e))) l,
                    [count_kind 0 l; count_kind 1 l; count_kind 2 l; count_kind 3 l; count_kind 4 l; count_kind 3 l])
  | None => None
  end.
Definition oanchor_eqb (a b : option anchor) := opt_eqb anchor_eqb a b.
Definition brec_eqb (a b : brec) : bool :=
  let '(i1, k1, l1, r1) := a in let '(i2, k2, l2, r2) := b in
  anchor_eqb i1 i2 && Nat.eqb k1 k2 && oanchor_eqb l1 l2 && oanchor_eqb r1 r2.
Definition sp_eqb (a b : path * list brec * list anchor) : bool :=
  let '(p1, b1, a1) := a in let '(p2, b2, a2) := b in
  path_eqb p1 p2 && set_eqb brec_eqb b1 b2 && set_eqb anchor_eqb a1 a2.
Definition eqb13 (a b : out13) : bool :=
  opt_eqb (fun x y => list_eqb sp_eqb (fst x) (fst y) && list_eqb Nat.eqb (snd x) (snd y)) a b.
"""


# ---------------------------------------------------------------------------
# running the implementation (shared with C14)


class Stub:
    """Stand-in for superrec2.utils.tex.measure: one box per text, in order, sizes taken
    from the case (half units), cycling."""

    def __init__(self, sizes2):
        self.sizes2 = sizes2
        self.texts = []

    def __call__(self, texts, preamble=""):
        from superrec2.utils import tex
        texts = list(texts)
        out = []
        for t in texts:
            w2, h2, d2 = self.sizes2[len(self.texts) % len(self.sizes2)]
            self.texts.append(t)
            out.append(tex.MeasureBox(w2 / 2, h2 / 2, d2 / 2))
        return out


def sol_species(sol):
    return sol if isinstance(sol, str) else sol[0]


def sol_nodes(sol, p=""):
    """pre-order (object path, species, left species | None, right species | None)"""
    if isinstance(sol, str):
        return [(p, sol, None, None)]
    return ([(p, sol[0], sol_species(sol[1]), sol_species(sol[2]))]
            + sol_nodes(sol[1], p + "0") + sol_nodes(sol[2], p + "1"))


def fam_name(f):
    return "f%d" % f


def build_output(case):
    """case -> (Built, ReconciliationOutput | SuperReconciliationOutput)"""
    from superrec2.model.reconciliation import ReconciliationOutput, SuperReconciliationOutput
    lab = case.get("lab", 0)
    b = recon.Built(case["S"], case["O"], recon.default_costs(), labelled=lab > 0, unordered=lab == 2)
    nm = case.get("nm", 0)
    for n, p in b.opath.items():
        n.name = "g_" + (p or "r")       # leaf names must look like <species>_<gene>
        if nm and not n.is_leaf():
            # at the API level ancestors need no names (nm = 1) and names need not be distinct (nm = 2):
            # nodes are identified by object identity, never by name
            n.name = "" if nm == 1 else "anc_1"
    mapping = {b.onode[p]: b.snode[s] for p, s, _, _ in sol_nodes(case["sol"])}
    if lab == 0:
        return b, ReconciliationOutput(b.input, mapping)
    syn = {}

    def go(o, p):
        if isinstance(o, dict):
            fams = list(o.get("syn", []))
        else:
            fams = sorted(set(go(o[0], p + "0")) | set(go(o[1], p + "1")))
        names = [fam_name(f) for f in fams]
        syn[b.onode[p]] = names if lab == 1 else set(names)
        return fams
    go(case["O"], "")
    return b, SuperReconciliationOutput(b.input, mapping, syn, lab == 1)


def draw_params(case):
    from superrec2.render.model import DrawParams, Orientation
    p2 = dict(DEFAULT_PARAMS2)
    p2.update(case.get("params2") or {})
    kw = {k: (v / 2 if v % 2 else v // 2) for k, v in p2.items()}
    return DrawParams(orientation=Orientation.VERTICAL if case["orient"] == "V" else Orientation.HORIZONTAL, **kw)


def run_impl(case, sizes2=None, orient=None):
    """Runs layout.compute and tikz.render under the stub measurer.
    Returns dict(built, out, layout, text, stub, params)."""
    from superrec2.utils import tex
    from superrec2.render import layout, tikz
    c = dict(case)
    if orient is not None:
        c["orient"] = orient
    b, out = build_output(c)
    stub = Stub(sizes2 if sizes2 is not None else c["sizes2"])
    params = draw_params(c)
    old = tex.measure
    tex.measure = stub
    try:
        lay = layout.compute(out, params)
        text = tikz.render(out, lay, params)
    finally:
        tex.measure = old
    return {"built": b, "out": out, "layout": lay, "text": text, "stub": stub, "params": params}


def anchor_ids(b, lay):
    """identify every key of the branch dicts: [object path, k] (k-th pseudo-gene above the node; 0 = node)"""
    from superrec2.render.model import PseudoGene
    owner = {}
    for sl in lay.values():
        for key, br in sl.branches.items():
            owner[key] = br
    memo = {}

    def ident(key):
        if key in memo:
            return memo[key]
        if isinstance(key, PseudoGene):
            br = owner[key]
            child = br.left if br.left is not None else br.right
            p, k = ident(child)
            memo[key] = (p, k + 1)
        else:
            memo[key] = (b.opath[key], 0)
        return memo[key]
    for key in owner:
        ident(key)
    return ident


def kind_index(kind):
    return KINDS.index(kind.name)


def species_records(b, lay):
    """per species in pre-order: [path, [[id, kind, left, right] sorted by id], [anchor ids sorted]]"""
    ident = anchor_ids(b, lay)
    byname = {}
    for sp, sl in lay.items():
        recs = []
        for key, br in sl.branches.items():
            recs.append([list(ident(key)), kind_index(br.kind),
                         None if br.left is None else list(ident(br.left)),
                         None if br.right is None else list(ident(br.right))])
        anchors = [list(ident(k)) for k in sl.anchors]
        byname[b.spath[sp]] = [sorted(recs, key=lambda r: r[0]), sorted(anchors)]
    return [[p] + byname[p] for p in recon.shape_paths(b.S)]


NODE_RE = {
    0: re.compile(r"\\node\[extant gene="), 1: re.compile(r"\\node\[speciation="), 2: re.compile(r"\\node\[duplication="),
    3: re.compile(r"\\node\[horizontal gene transfer="), 4: re.compile(r"\\node\[loss="),
    5: re.compile(r"\\path\[transfer branch="),
}


def text_counts(text):
    body = text[text.index(r"\begin{tikzpicture}"):]
    return [len(NODE_RE[i].findall(body)) for i in range(6)]


def impl13(case):
    try:
        r = run_impl(case)
    except Exception as e:  # any exception: no drawing
        return {"error": type(e).__name__ + ": " + str(e)[:200]}
    b, out, lay = r["built"], r["out"], r["layout"]
    events = {}
    for p, s, l, rr in sol_nodes(case["sol"]):
        events[p] = out.node_event(b.onode[p]).name
    cost = out.reconciliation_cost() if hasattr(out, "reconciliation_cost") else out.cost()
    return {"species": species_records(b, lay), "counts": text_counts(r["text"]),
            "events": events, "cost": recon.ext_of(cost), "measured": len(r["stub"].texts)}


# ---------------------------------------------------------------------------
# Gallina literals


def enc_anchor(a):
    return cpair(recon.enc_path(a[0]), cnat(a[1]))


def enc_brec(r):
    return cpair(enc_anchor(r[0]), cnat(r[1]), copt(None if r[2] is None else enc_anchor(r[2])),
                 copt(None if r[3] is None else enc_anchor(r[3])))


def enc_out13(case, r):
    if "error" in r:
        return "None"
    sp = clist(cpair(recon.enc_path(p), clist(enc_brec(x) for x in recs), clist(enc_anchor(a) for a in anchors))
               for p, recs, anchors in r["species"])
    return f"(Some ({sp}, {clist(cnat(n) for n in r['counts'])}))"


def enc_in13(case):
    return cpair(recon.enc_stree(case["S"]), recon.enc_rtree(case["sol"]))


# ---------------------------------------------------------------------------
# independent oracle, from the property text (parent chains only)


def expected_losses(sol):
    """species of every full loss, from the documented event model"""
    out = []
    for p, s, l, r in sol_nodes(sol):
        if l is None:
            continue
        ev = recon.Oracle.event(recon.Oracle, s, l, r)

        def between(c, include_top):
            return [c[:k] for k in range(len(s) + (0 if include_top else 1), len(c))]
        if ev == "S":
            out += between(l, False) + between(r, False)
        elif ev == "D":
            out += between(l, True) + between(r, True)
        elif ev == "TL":
            out += between(l, True)
        elif ev == "TR":
            out += between(r, True)
    return sorted(out)


EV_KIND = {"LEAF": 0, "SPECIATION": 1, "DUPLICATION": 2, "HORIZONTAL_TRANSFER": 3}
ORACLE_KIND = {"S": 1, "D": 2, "TL": 3, "TR": 3}


def oracle13(case, r):
    if "error" in r:
        return False, "the implementation raised " + r["error"] + " on a valid reconciliation: no drawing at all"
    nodes = sol_nodes(case["sol"])
    where = {}      # anchor id -> [(species, record)]
    anchors = {}
    for p, recs, anc in r["species"]:
        anchors[p] = {tuple(a) for a in anc}
        for rec in recs:
            where.setdefault(tuple(rec[0]), []).append((p, rec))
    # one event node per object node, in its species, of the evaluator's kind
    for p, s, l, rr in nodes:
        got = where.get((p, 0), [])
        if len(got) != 1:
            return False, f"object node {p!r}: {len(got)} event nodes in the layout, exactly one expected"
        sp, rec = got[0]
        if sp != s:
            return False, f"object node {p!r} is mapped to species {s!r} but its event node is placed in {sp!r}"
        want = EV_KIND.get(r["events"][p])
        mine = 0 if l is None else ORACLE_KIND.get(recon.Oracle.event(recon.Oracle, s, l, rr))
        if want is None or want != mine:
            return True, "evaluator's node_event differs from the documented classification: outside C13 (see C06)"
        if rec[1] != want:
            return False, f"object node {p!r}: evaluator says {r['events'][p]}, the layout draws kind {KINDS[rec[1]]}"
    real = sum(1 for k, v in where.items() if k[1] == 0 for _ in v)
    if real != len(nodes):
        return False, f"{real} event nodes for {len(nodes)} object nodes"
    # loss markers: one per full loss counted by the evaluator, in the species where it occurs
    got_losses = sorted(p for p, recs, _ in r["species"] for rec in recs if rec[1] == 4)
    want_losses = expected_losses(case["sol"])
    n_dup = sum(1 for p in r["events"].values() if p == "DUPLICATION")
    n_tr = sum(1 for p in r["events"].values() if p == "HORIZONTAL_TRANSFER")
    by_cost = r["cost"] - n_dup - n_tr       # default costs: spe 0, dup 1, hgt 1, floss 1
    if len(got_losses) != by_cost:
        return False, f"{len(got_losses)} loss markers in the layout, the evaluator's cost counts {by_cost} full losses"
    if got_losses != want_losses:
        return False, f"loss markers in species {got_losses}, the event model loses in {want_losses}"
    pseudo = sum(1 for k, v in where.items() if k[1] > 0 for _ in v)
    if pseudo != len(got_losses):
        return False, "a pseudo-gene anchor carries a non-loss branch"
    # transfers end at the transferred child, whose anchor exists in its species
    species_of = {p: s for p, s, _, _ in nodes}
    for p, s, l, rr in nodes:
        if l is None or r["events"][p] != "HORIZONTAL_TRANSFER":
            continue
        rec = where[(p, 0)][0][1]
        foreign = p + "0" if not l.startswith(s) else p + "1"
        if rec[3] is None or tuple(rec[3]) != (foreign, 0):
            return False, f"transfer at {p!r}: arrow target {rec[3]}, the transferred child is {foreign!r}"
        if (foreign, 0) not in anchors.get(species_of[foreign], set()):
            return False, f"transfer at {p!r}: target {foreign!r} has no anchor in its species {species_of[foreign]!r}"
    # drawing: one \node per branch, one arrow per transfer
    kinds = [0] * 5
    for p, recs, _ in r["species"]:
        for rec in recs:
            kinds[rec[1]] += 1
    n_leaf = sum(1 for p, s, l, _ in nodes if l is None)
    n_spe = sum(1 for p in r["events"].values() if p == "SPECIATION")
    want_counts = [n_leaf, n_spe, n_dup, n_tr, len(want_losses), n_tr]
    if r["counts"] != want_counts:
        return False, (f"drawing has {r['counts']} (extant, speciation, duplication, transfer, loss nodes; transfer arrows), "
                       f"the reconciliation has {want_counts}")
    if kinds != want_counts[:5]:
        return False, f"layout has {kinds} branches per kind, expected {want_counts[:5]}"
    # every referenced anchor exists
    for p, recs, _ in r["species"]:
        ids = {tuple(rec[0]) for rec in recs}
        for rec in recs:
            k, left, right = rec[1], rec[2], rec[3]
            if k == 1:
                if left is None or tuple(left) not in anchors.get(p + "0", ()) or right is None or tuple(right) not in anchors.get(p + "1", ()):
                    return False, f"speciation {rec[0]} in {p!r}: child anchors {left}/{right} missing in the child species"
            elif k == 4:
                if (left is None) == (right is None):
                    return False, f"loss {rec[0]} in {p!r} must keep exactly one child"
                side, a = ("0", left) if left is not None else ("1", right)
                if tuple(a) not in anchors.get(p + side, ()):
                    return False, f"loss {rec[0]} in {p!r}: kept child {a} has no anchor in species {p + side!r}"
            elif k == 2:
                if left is None or right is None or tuple(left) not in ids or tuple(right) not in ids:
                    return False, f"duplication {rec[0]} in {p!r}: children {left}/{right} are not branches of the same species"
            elif k == 3:
                if left is None or tuple(left) not in ids:
                    return False, f"transfer {rec[0]} in {p!r}: conserved child {left} is not a branch of the same species"
    return True, "event nodes, loss markers, transfer targets, anchors and drawn statements are as the property demands"


# ---------------------------------------------------------------------------
# generators (shared with C14)


def rand_sizes2(rng, n=24):
    out = []
    for _ in range(n):
        mode = rng.random()
        if mode < 0.2:
            w2, h2 = rng.choice([2, 200]), rng.choice([2, 200])
        else:
            w2, h2 = rng.randint(2, 200), rng.randint(2, 200)
        d2 = rng.randint(0, h2 - 1)
        out.append([w2, h2 - d2, d2])
    return out


def rand_params2(rng, p_default=0.3):
    if rng.random() < p_default:
        return {}
    out = {}
    for k in NUMERIC_PARAMS:
        if rng.random() < 0.7:
            out[k] = rng.choice([1, 2, 3, 5, 8, 13, 24, 40, rng.randint(1, 60)])
    return out


def small_inputs(max_o, max_s):
    """every (species shape, object tree with leaves on species leaves)"""
    for ns in range(1, max_s + 1):
        for S in recon.all_shapes(ns):
            sl = recon.shape_leaves(S)
            for no in range(1, max_o + 1):
                for shape in recon.all_shapes(no):
                    k = recon.n_leaves(shape)
                    for assign in itertools.product(sl, repeat=k):
                        it = iter(assign)

                        def fill(x):
                            if x == 0:
                                return {"sp": next(it), "syn": []}
                            return [fill(x[0]), fill(x[1])]
                        yield S, fill(shape)


def with_syn(rng, O, nf=4):
    """copy of O with random leaf syntenies over nf families"""
    if isinstance(O, dict):
        k = rng.randint(1, nf)
        return {"sp": O["sp"], "syn": sorted(rng.sample(range(nf), k))}
    return [with_syn(rng, O[0], nf), with_syn(rng, O[1], nf)]


def rand_valid(rng, orc, O):
    """a random valid reconciliation (uniform choice among valid species at each node, bottom-up)"""
    if isinstance(O, dict):
        return O["sp"]
    a, b = rand_valid(rng, orc, O[0]), rand_valid(rng, orc, O[1])
    l, r = sol_species(a), sol_species(b)
    choices = [s for s in orc.nodes if orc.event(s, l, r) is not None]
    # favour low placements a little so that speciations are not rare
    choices.sort(key=len, reverse=True)
    s = choices[min(int(rng.expovariate(0.7)), len(choices) - 1)] if rng.random() < 0.5 else rng.choice(choices)
    return [s, a, b]


def make_cases(ctx, quick_small=(3, 3), n_mid=60, cap_mid=40, n_rand=300, tag="c13"):
    rng = ctx.rng
    cases = []
    combos = [(lab, o) for lab in (0, 1, 2) for o in ("V", "H")]
    i = 0

    def add(S, O, sol, exhaustive_part):
        nonlocal i
        lab, orient = combos[i % 6] if exhaustive_part else rng.choice(combos)
        i += 1
        cases.append({"nm": rng.choice([0, 0, 1, 2]), "S": S, "O": with_syn(rng, O) if lab else O, "sol": sol, "lab": lab, "orient": orient,
                      "sizes2": rand_sizes2(rng), "params2": rand_params2(rng)})

    n_small = 0
    for S, O in small_inputs(*quick_small):
        orc = recon.Oracle(S)
        for sol in orc.enumerate_valid(O):
            add(S, O, sol, True); n_small += 1
    n_midc = 0
    sizes_mid = [(4, 3), (3, 4), (4, 4)] if ctx.quick() else [(4, 3), (3, 4), (4, 4), (5, 4), (4, 5), (5, 5)]
    for _ in range(n_mid):
        no, ns = rng.choice(sizes_mid)
        S = rng.choice(recon.all_shapes(ns))
        O = recon.rand_otree(rng, no, recon.shape_leaves(S))
        orc = recon.Oracle(S)
        sols = orc.enumerate_valid(O)
        if len(sols) > cap_mid:
            sols = rng.sample(sols, cap_mid)
        for sol in sols:
            add(S, O, sol, False); n_midc += 1
    n_big = 0
    for _ in range(n_rand):
        ns = rng.randint(2, 8)
        no = rng.randint(4, 10)
        S = recon.rand_shape(rng, ns)
        O = recon.rand_otree(rng, no, recon.shape_leaves(S))
        add(S, O, rand_valid(rng, recon.Oracle(S), O), False); n_big += 1
    ctx.dist[tag + "_cases"] = {"exhaustive_small": n_small, "sampled_inputs_all_recs": n_midc, "random_large": n_big,
                                "small_bound": list(quick_small)}
    return cases, n_small


def nontrivial13(case, r):
    if "error" in r:
        return False
    ev = set(r["events"].values())
    return r["counts"][4] > 0 and bool(ev & {"DUPLICATION", "HORIZONTAL_TRANSFER"})


def batches(ctx):
    if getattr(ctx, "replay_case", None) is not None:
        cases, n_small = [ctx.replay_case], 0
    elif ctx.quick():
        cases, n_small = make_cases(ctx, (3, 3), n_mid=110, cap_mid=30, n_rand=600)
    else:
        cases, n_small = make_cases(ctx, (3, 3), n_mid=600, cap_mid=60, n_rand=4000)
    kinds = {"V": 0, "H": 0, "plain": 0, "ordered": 0, "unordered": 0}
    for c in cases:
        kinds[c["orient"]] += 1
        kinds[["plain", "ordered", "unordered"][c["lab"]]] += 1
    ctx.dist["c13_variants"] = kinds
    yield Batch(
        name="branches", header=HEADER, run="run13", eqb="eqb13",
        ty_in="stree * rtree", ty_out="out13",
        cases=cases, impl=impl13, enc_in=enc_in13, enc_out=enc_out13,
        oracle=oracle13, nontrivial=nontrivial13, exhaustive=False, shard=350,
        describe=(f"{n_small} = every valid reconciliation of every input up to 3x3 leaves; all (capped) valid reconciliations of sampled "
                  "inputs with 4-5 leaves; random valid reconciliations up to 10 object leaves / 8 species leaves; plain, ordered and "
                  "unordered labelling, both orientations, random stub sizes and DrawParams; compared: per-species branch records "
                  "(anchor id, kind, left, right) and anchor sets, and the numbers of \\node / transfer-arrow statements in tikz.render"),
    )
