"""C06 — the cost evaluator implements the documented event model."""
from __future__ import annotations

import itertools
import json

from ..core import Batch, cN, cZ, cbool, clist, copt, cpair
from .. import recon as R

ID = "C06"
LEVEL = "proof"
PROP_FILE = "Properties/C06.v"
PROOF_FILES = ["Proofs/ReviewCLabelCost.v", "Gen/EvalGen.v", "Proofs/EvalGenProofs.v", "Gen/SubseqGen.v", "Proofs/SubseqGenProofs.v", "Proofs/ChargedEdgesProofs.v", "Proofs/LabelCostProofs.v", "Proofs/ReconProofs.v", "Proofs/PathFacts.v", "Proofs/SubseqProofs.v",
               "Model/Recon.v", "Model/Subseq.v", "Base/PathB.v", "Base/Ext.v"]
TRUSTED = ["translator translator/pyfun.py + the type table in translator/eval_gen.py: node_event, _cost_rec, cost and the labelled cost functions of model/reconciliation.py are translated statement by statement into Gen/EvalGen.v on every run and proved equal to Model/Recon.v (object nodes = identifiers, node-keyed dictionaries = total functions, the species LCA structure = a parameter instantiated with the path operations)",
           "model Model/Recon.v of node_event/_cost_rec/_ordered_labeling_cost/_unordered_labeling_cost over bool root paths (C17 ties ancestry to the code, C18 the masks)"]
ASSUMES = ["binary trees", "infinity.inf adds like an extended integer"]
RULE = ("cases = (species tree, object tree with leaf species, a species for every object node [valid ones from an enumerator independent of the package, plus invalid ones], "
        "optionally a synteny for every node, cost vector); non-trivial = at least one duplication or transfer, or a labelled case with at least one lost run")

def _cli_cases(rng, n):
    """command-line runs for the clause "the reported minimum cost of the command-line tool is this value for the solutions it
    writes": C12's generator of documented-format inputs, half of them with unit costs that give totals of many significant
    digits (large integers, fractions that are not dyadic); DP solvers only inside the coherent region (F-COHERENCE)"""
    from . import c12
    cases = []
    k = 0
    while len(cases) < n:
        k += 1
        c = c12.gen_cli_case(rng, k)
        if c["algo"] not in c12.PLAIN_ALGOS + c12.SUPER_ALGOS:
            continue
        if len(cases) % 2 == 0:
            nm = rng.choice(["dup", "floss", "hgt"])
            c["costs"][nm] = rng.choice({"dup": [1234567, "10**7+1", "7/3"], "floss": [100003, "1/3", "2/7"], "hgt": [7654321, "1/3", "10**8+7"]}[nm])
        if c["algo"] in c12.DP_ALGOS and not R.coherent(c12._full_costs(c), plain=(c["algo"] == "thl")):
            continue
        cases.append(c)
    return cases


def _cli_one(c):
    from . import c12
    res = c12.impl_cli(c)
    ok, why = c12.oracle_cli(c, res)
    return ok, why, {pol: {"status": r["status"], "printed": c12.printed_cost(r["stderr"]), "stdout": r["stdout"][:2000]} for pol, r in res.items()}


def extra(ctx):
    """the evaluator's value through the command line (implementation only, judged by C12's oracle written from the property text)"""
    import multiprocessing as mp
    from .. import core
    from ..core import Finding
    cases = _cli_cases(ctx.rng, 64 if ctx.quick() else 1200)
    bad = 0
    with mp.get_context("fork").Pool(core.NPROC) as pool:
        for c, (ok, why, brief) in zip(cases, pool.map(_cli_one, cases, chunksize=2)):
            ctx.evaluations += 1
            if ok is False:
                bad += 1
                if bad <= 3:
                    ctx.findings.append(Finding("cli_reported_cost", c, brief, "(the printed minimum is the evaluated cost of every written solution)", False, why))
    ctx.notes.append(f"command-line stage: {len(cases)} runs of `reconcile` (both --solutions policies; half with many-digit unit costs), {bad} failures")


def replay_case(payload):
    case = payload["case"]
    ok, why, brief = _cli_one(case)
    return ok is not False, f"reconcile {case['algo']} with cost options {case['costs']}: {why}", brief

OPEN_GOALS: list = []
TECHNIQUE = "translator tie: the evaluator is regenerated into Gallina on every run and proved equal to the model; Coq proof (induction on reconciliations; bit/list induction for masks) that the evaluator model equals an explicit recount; model tied to node_event/cost()/labeling_cost() by exhaustive small + random cases"
LEVEL_TEXT = ("The evaluator itself (node_event, _cost_rec, cost, reconciliation_cost, _ordered_labeling_cost, _unordered_labeling_cost, labeling_cost) is translated from the source on every run and proved equal to the model for all inputs (C06_gen_*; the unordered count under sloss >= 0: with a negative segmental-loss cost code and model differ, kernel-checked example negative_sloss_differs, outside every property's domain). Machine-checked for all trees and cost vectors: the evaluator's cost of a valid reconciliation = unit costs x event counts + full-loss cost x the length of explicit loss lists; "
              "events classified exactly as the geometric definitions; ordered labelling cost = sloss x lost runs of families (via C18), unordered = sloss x the number of charged lossy edges, proved against a specification written from the event rules (C06_unordered_labeling_charged_edges; C06_unordered_labeling_recount is the definitional unfolding). "
              "Model compared with node_event, reconciliation_cost, labeling_cost, cost on every valid mapping of small inputs, random larger ones, and invalid mappings/labellings.")
LEVEL_NOTE = ("Trusted: Coq kernel; hand-written model (correspondence = differential testing); C17/C18 for ancestry and masks. No axioms. "
              "The clause about the command-line tool's printed minimum cost is exercised by the C12 check (printed cost == cost() of every parsed solution), not here.")

HEADER = R.RECON_HEADER + """
Definition ev_code (e : ev) : N := match e with Spe => 1 | Dup => 2 | TrL => 3 | TrR => 3 | Inv => 0 end%N.
Fixpoint node_events (r : rtree) : list N :=
  match r with RLeaf _ => [] | RNode s a b => ev_code (event s (root a) (root b)) :: node_events a ++ node_events b end.
Definition run_plain (x : otree * rtree * costs) := let '(Ot, r, c) := x in (node_events r, cost c Ot r).
Definition plain_eqb (a b : list N * ext) := list_eqb N.eqb (fst a) (fst b) && ext_eqb (snd a) (snd b).
Definition run_lab (x : otree * ltree * bool * costs) :=
  let '(Ot, t, ord, c) := x in (cost c Ot (forget t), labeling_cost c ord t, total_cost c Ot ord t).
Definition lab_eqb (a b : ext * option Z * option ext) :=
  let '(a1, a2, a3) := a in let '(b1, b2, b3) := b in
  ext_eqb a1 b1 && opt_eqb Z.eqb a2 b2 && opt_eqb ext_eqb a3 b3.
"""

EV = {"SPECIATION": 1, "DUPLICATION": 2, "HORIZONTAL_TRANSFER": 3, "INVALID": 0}


def _fill(shape, it):
    return {"sp": next(it), "syn": []} if shape == 0 else [_fill(shape[0], it), _fill(shape[1], it)]


def _random_mapping(rng, O, nodes):
    if isinstance(O, dict):
        return O["sp"]
    return [rng.choice(nodes), _random_mapping(rng, O[0], nodes), _random_mapping(rng, O[1], nodes)]


def _runs(child, parent, edges):
    flags = [x in child for x in parent]
    rs, i = [], 0
    while i < len(flags):
        if not flags[i]:
            j = i
            while j < len(flags) and not flags[j]:
                j += 1
            rs.append((i, j)); i = j
        else:
            i += 1
    if not edges:
        rs = [(a, b) for a, b in rs if a > 0 and b < len(flags)]
    return len(rs)


def _prime_eval(B, out, c, evaluate):
    """history independence (every third case): the very same output object is evaluated first while the input's
    cost dictionary holds other unit costs; the costs are then put back in place.  What the package remembers
    from the first evaluation must not leak into the one observed."""
    import json as _json
    if len(_json.dumps(c)) % 3:
        return
    real = dict(B.input.costs)
    for k in list(B.input.costs):
        v = B.input.costs[k]
        B.input.costs[k] = (v + 2) if v != float("inf") and not hasattr(v, "_Infinity__positive") and isinstance(v, (int, float)) else 1
    try:
        evaluate(out)
    except Exception:  # noqa: BLE001 - the priming evaluation is not judged
        pass
    B.input.costs.clear()
    B.input.costs.update(real)


def pre_build(ctx):
    from translator import eval_gen, subseq_gen
    from .. import core
    a = subseq_gen.regenerate(core.REPO)
    b = eval_gen.regenerate(core.REPO)
    ctx.notes.append("Gen/EvalGen.v, Gen/SubseqGen.v " + ("regenerated (content changed)" if (a or b) else "regenerated: unchanged"))


def batches(ctx):
    rng = ctx.rng
    quick = ctx.quick()

    # ---- plain: events and cost ------------------------------------------------
    cases = []
    max_s, max_o = (3, 3) if quick else (4, 4)
    for ns in range(1, max_s + 1):
        for S in R.all_shapes(ns):
            orc = R.Oracle(S)
            sl = R.shape_leaves(S)
            for no in range(2, max_o + 1):
                for Osh in R.all_shapes(no):
                    assigns = list(itertools.product(sl, repeat=no))
                    if len(assigns) > 40:
                        assigns = rng.sample(assigns, 40)
                    for a in assigns:
                        O = _fill(Osh, iter(a))
                        recs = orc.enumerate_valid(O)
                        if len(recs) > 60:
                            recs = rng.sample(recs, 60)
                        for r in recs:
                            cases.append({"S": S, "O": O, "r": r, "costs": R.rand_costs(rng, coherent_only=False, hi=5)})
    for _ in range(1500 if quick else 15000):
        S = R.rand_shape(rng, rng.randint(2, 6))
        orc = R.Oracle(S)
        O = R.rand_otree(rng, rng.randint(2, 6), R.shape_leaves(S))
        if rng.random() < 0.7:
            # a random valid mapping, bottom-up
            def pick(o):
                if isinstance(o, dict):
                    return o["sp"]
                a, b = pick(o[0]), pick(o[1])
                l = a if isinstance(a, str) else a[0]
                r_ = b if isinstance(b, str) else b[0]
                ok = [s for s in orc.nodes if orc.event(s, l, r_) is not None]
                return [rng.choice(ok), a, b]
            r = pick(O)
        else:
            r = _random_mapping(rng, O, orc.nodes)
        cases.append({"S": S, "O": O, "r": r, "costs": R.rand_costs(rng, coherent_only=False, hi=5)})

    def impl(c):
        B = R.Built(c["S"], c["O"], c["costs"])
        out = B.output_of(c["r"])
        _prime_eval(B, out, c, lambda o: (o.cost(), [o.node_event(n) for n in B.otree.traverse()]))
        evs = [EV[out.node_event(n).name] for n in B.otree.traverse("preorder") if not n.is_leaf()]
        return {"events": evs, "cost": R.ext_of(out.cost())}

    def oracle(c, r):
        orc = R.Oracle(c["S"])
        want_ev = []

        def go(sol):
            if isinstance(sol, str):
                return
            l = sol[1] if isinstance(sol[1], str) else sol[1][0]
            rr = sol[2] if isinstance(sol[2], str) else sol[2][0]
            e = orc.event(sol[0], l, rr)
            want_ev.append({"S": 1, "D": 2, "TL": 3, "TR": 3, None: 0}[e])
            go(sol[1]); go(sol[2])
        go(c["r"])
        if want_ev != r["events"]:
            return False, f"events should be {want_ev}, got {r['events']}"
        if 0 in want_ev:
            return (r["cost"] == R.INF), "invalid mapping must cost inf"
        want = orc.cost_of(c["r"], c["costs"])
        got = float("inf") if r["cost"] == R.INF else r["cost"]
        return got == want, f"recount gives {want}, evaluator gives {got}"

    ctx.dist["plain"] = {"cases": len(cases)}
    yield Batch(
        name="plain", header=HEADER, run="run_plain", eqb="plain_eqb",
        ty_in="otree * rtree * costs", ty_out="list N * ext",
        cases=cases, impl=impl,
        enc_in=lambda c: cpair(R.enc_otree(c["O"]), R.enc_rtree(c["r"]), R.enc_costs(c["costs"])),
        enc_out=lambda c, r: cpair(clist(cN(e) for e in r["events"]), R.enc_ext(r["cost"])),
        oracle=oracle,
        nontrivial=lambda c, r: any(e in (2, 3) for e in r["events"]),
        exhaustive=False, shard=1500,
        describe=f"valid mappings (independent enumerator) of inputs up to {max_o}/{max_s} leaves, random valid and invalid mappings up to 6/6 leaves, arbitrary cost vectors",
    )

    # ---- labelled ---------------------------------------------------------------------
    lcases = []
    for _ in range(2500 if quick else 25000):
        S = R.rand_shape(rng, rng.randint(2, 5))
        orc = R.Oracle(S)
        O = R.rand_otree(rng, rng.randint(2, 5), R.shape_leaves(S))
        nf = rng.randint(1, 5)
        fams = rng.sample(range(1, 8), nf)
        ordered = rng.random() < 0.6
        mode = rng.random()

        def lab(o, parent_syn):
            # mostly valid: non-empty subsequence/subset of the parent's synteny
            if mode < 0.8:
                k = rng.randint(1, len(parent_syn))
                idx = sorted(rng.sample(range(len(parent_syn)), k))
                syn = [parent_syn[i] for i in idx]
            else:
                syn = [rng.choice(fams) for _ in range(rng.randint(0, nf))]
                if not ordered:
                    syn = sorted(set(syn))
            if isinstance(o, dict):
                return [o["sp"], syn]
            a, b = lab(o[0], syn or parent_syn), lab(o[1], syn or parent_syn)
            ok = [s for s in orc.nodes if orc.event(s, a[0], b[0]) is not None]
            s = rng.choice(ok) if rng.random() < 0.95 else rng.choice(orc.nodes)
            return [s, syn, a, b]
        t = lab(O, fams if ordered else sorted(fams))
        if len(t) == 4:
            t[1] = fams if ordered else sorted(fams)
        if not ordered:
            def srt(x):
                x[1] = sorted(set(x[1]))
                if len(x) == 4:
                    srt(x[2]); srt(x[3])
            srt(t)
        lcases.append({"S": S, "O": O, "t": t, "ordered": ordered, "costs": R.rand_costs(rng, coherent_only=False, hi=4)})

    def impl_lab(c):
        B = R.Built(c["S"], c["O"], c["costs"], labelled=True, unordered=not c["ordered"])
        out = B.output_of(c["t"], labelled=True, ordered=c["ordered"])
        _prime_eval(B, out, c, lambda o: (o.reconciliation_cost(), o.labeling_cost(), o.cost()))
        rc = R.ext_of(out.reconciliation_cost())
        try:
            v = out.labeling_cost()
            if v == float("inf"):          # an invalid labelled reconciliation: an assertion or an infinite cost, both mean "no cost"
                raise AssertionError
            lc = int(v) if v == int(v) else v
            tot = R.ext_of(out.cost())
        except AssertionError:
            lc, tot = None, None
        return [rc, lc, tot]

    def oracle_lab(c, r):
        orc = R.Oracle(c["S"])
        t = c["t"]
        valid = True
        total = 0

        def go(x):
            nonlocal valid, total
            if len(x) == 2:
                return
            s, P, a, b = x
            e = orc.event(s, a[0], b[0])
            if e is None:
                valid = False
                return
            for ch in (a, b):
                if c["ordered"]:
                    it = iter(P)
                    if not ch[1] or not all(f in it for f in ch[1]) or len(set(P)) != len(P):
                        valid = False
                else:
                    pass
            if c["ordered"]:
                la, lb = (lambda e_: _runs(a[1], P, e_)), (lambda e_: _runs(b[1], P, e_))
                k = {"S": la(True) + lb(True), "D": min(la(True) + lb(False), la(False) + lb(True)),
                     "TL": la(True) + lb(False), "TR": la(False) + lb(True)}[e]
            else:
                la = 0 if set(P) <= set(a[1]) else 1
                lb = 0 if set(P) <= set(b[1]) else 1
                k = {"S": la + lb, "D": min(la, lb), "TL": la, "TR": lb}[e]
            total += k
            go(a); go(b)
        go(t)
        if not valid:
            return True, "not a valid labelling: outside the property's domain"
        want = total * c["costs"]["sloss"]
        if r[1] != want:
            return False, f"labelling cost should be {want} ({total} segmental losses), got {r[1]}"
        return True, "labelling cost is the recount"

    yield Batch(
        name="labelled", header=HEADER, run="run_lab", eqb="lab_eqb",
        ty_in="otree * ltree * bool * costs", ty_out="ext * option Z * option ext",
        cases=lcases, impl=impl_lab,
        enc_in=lambda c: cpair(R.enc_otree(c["O"]), R.enc_ltree(c["t"]), cbool(c["ordered"]), R.enc_costs(c["costs"])),
        enc_out=lambda c, r: cpair(R.enc_ext(r[0]), copt(None if r[1] is None else cZ(r[1])), copt(None if r[2] is None else R.enc_ext(r[2]))),
        oracle=oracle_lab,
        nontrivial=lambda c, r: r[1] not in (None, 0),
        exhaustive=False, shard=1500,
        describe="random labelled reconciliations (ordered and unordered, mostly valid, some invalid) on up to 5/5 leaves and 5 families",
    )
