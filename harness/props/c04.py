"""C04 — every returned solution is a valid, complete (super-)reconciliation."""
from __future__ import annotations

import json

from ..core import Batch, Finding
from .. import recon as R
from .. import labelled as LB
from . import c01, c02, c03

ID = "C04"
LEVEL = "proof"
PROP_FILE = "Properties/C04.v"
PROOF_FILES = ["Proofs/FiniteCostProofs.v", "Proofs/PolyBoundProofs.v", "Model/Poly.v", "Proofs/PolyProofs.v", "Proofs/SpfsFinal.v", "Proofs/SpfsProofs.v", "Proofs/UspfsFinal.v", "Proofs/UspfsProofs.v", "Proofs/ThlFinal.v", "Proofs/ThlProofs.v", "Proofs/ExhProofs.v", "Proofs/LcaProofs.v", "Proofs/DpProofs.v", "Proofs/EntryProofs.v",
               "Proofs/ReconProofs.v", "Proofs/PathFacts.v", "Model/Thl.v", "Model/Spfs.v", "Model/Uspfs.v", "Model/Recon.v", "Model/Entry.v"]
TRUSTED = c01.TRUSTED + c02.TRUSTED + c03.TRUSTED
ASSUMES = ["binary trees for the modelled part; multifurcating inputs are checked on the implementation's outputs only"]
RULE = ("same input space as C01-C03 but with arbitrary (also incoherent) cost vectors and sloss = 0, all seven algorithms, both policies; "
        "non-trivial = a solution with at least one duplication/transfer or a labelled solution with >= 3 leaves")
OPEN_GOALS: list = []
TECHNIQUE = "Coq proof of validity of every decoded solution for all seven algorithms, with no hypothesis on the unit costs (decode soundness over the faithful table models)"
LEVEL_TEXT = ("Machine-checked for any unit costs (sloss = 0, incoherent vectors and an infinite transfer cost included), both policies: every solution returned by lca, thl, exh, base/ext SPFS and "
              "base/ext USPFS maps every object node, keeps the leaves on their species, has no invalid event and has a FINITE evaluated cost equal to the value of the entry (C04_finite_*); ordered: leaf syntenies exact, "
              "every child a subsequence of its parent, root = a compatible root order (every family once), the evaluator does not fail; unordered: a family occurs only inside the subtree of its gain node and on every node "
              "of the branch down to where it occurs. Multifurcating inputs: every solution the extended solvers return refers to a pair of binary refinements of the two trees and is valid and of finite cost on that pair "
              "(C04_valid_poly_ordered / _unordered, any costs, any policy). The validity predicates and finiteness are also evaluated on the implementation's outputs, including those on multifurcating inputs "
              "(each read on its own refinement).")
LEVEL_NOTE = "Trusted: Coq kernel, hand-written models, correspondence (differential testing). No axioms. Theorems are about the code after fixes D4-D6."


def _valid_plain(case, sols):
    orc = R.Oracle(case["S"])

    def go(o, x):
        if isinstance(o, dict):
            return x == o["sp"]
        if not isinstance(x, list) or len(x) != 3 or x[0] not in orc.nodeset:
            return False
        l = x[1] if isinstance(x[1], str) else x[1][0]
        r = x[2] if isinstance(x[2], str) else x[2][0]
        return orc.event(x[0], l, r) is not None and go(o[0], x[1]) and go(o[1], x[2])
    for s in sols:
        if not go(case["O"], s):
            return False, f"invalid reconciliation returned: {json.dumps(s)}"
        if orc.cost_of(s, case["costs"]) == float("inf"):
            return False, "a returned reconciliation has infinite cost"
    return True, "valid"


def batches(ctx):
    rng = ctx.rng
    quick = ctx.quick()

    def any_costs():
        c = R.rand_costs(rng, coherent_only=False, hi=3)
        if rng.random() < 0.3:
            c["sloss"] = 0
        return c

    # plain solvers, arbitrary costs
    pc = []
    for _ in range(500 if quick else 5000):
        S = R.rand_shape(rng, rng.randint(1, 5))
        pc.append({"S": S, "O": R.rand_otree(rng, rng.randint(1, 5), R.shape_leaves(S)), "costs": any_costs()})
    b = c01.thl_batch(ctx, "thl_anycost", pc, "plain solvers on arbitrary (also incoherent) cost vectors: model = implementation, validity predicate on every output")

    def oracle_plain(c, r):
        if "error" in r:
            return False, f"solver raised {r['error']}"
        for k in ("all", "any", "exh", "gen"):
            ok, why = _valid_plain(c, r[k])
            if not ok:
                return False, f"{k}: {why}"
        return True, "all returned reconciliations are valid"
    b.oracle = oracle_plain
    b.eqb = "thl_eqb_weak"     # arbitrary costs: ANY need not be a member of ALL outside the coherent region
    yield b

    oc = [dict(c02.rand_case(rng, 4, 3, 3), costs=any_costs()) for _ in range(350 if quick else 3000)]
    b = c02.make_batch("spfs_anycost", oc, "ordered solvers on arbitrary cost vectors incl. sloss=0")

    def oracle_ord(c, r):
        if "error" in r:
            if all(l["syn"] for _, l in R.otree_leaves(c["O"])):
                return False, f"the root orders could not be computed on a well-formed input ({r['error']})"
            return True, "empty leaf synteny: outside the domain"
        for k in ("ext", "base"):
            if r.get(k) is None:
                return False, f"{k} raised {r.get(k + '_error')}"
            for sol in list(r[k]) + list(r[k + "_any"]):
                ok, why = LB.valid_ordered(c["S"], c["O"], sol, pres=c.get("pres"))
                if not ok:
                    return False, f"{k}: {why}"
                if LB.cost_labelled(c["S"], sol, c["costs"], True) == float("inf"):
                    return False, f"{k}: a returned solution has infinite cost"
        return True, "all returned labelled solutions are valid"
    b.oracle = oracle_ord
    b.eqb = "spfs_eqb_weak"
    yield b

    uc = [dict(c03.rand_case(rng, 6, 3, 4, chain=0.4), costs=any_costs()) for _ in range(3000 if quick else 20000)]
    b = c03.make_batch("uspfs_anycost", uc, "unordered solvers on arbitrary cost vectors incl. sloss=0")

    def oracle_un(c, r):
        for k in ("ext", "base"):
            if r.get(k) is None:
                return False, f"{k} raised {r.get(k + '_error')}"
            for sol in list(r[k]) + list(r[k + "_any"]):
                ok, why = LB.valid_unordered(c["S"], c["O"], sol)
                if not ok:
                    return False, f"{k}: {why}"
                if LB.cost_labelled(c["S"], sol, c["costs"], False) == float("inf"):
                    return False, f"{k}: a returned solution has infinite cost"
        return True, "all returned labelled solutions are valid"
    b.oracle = oracle_un
    b.eqb = "uspfs_eqb_weak"
    yield b


def extra(ctx):
    """validity predicates evaluated directly on every solution (all seven algorithms, both policies),
    also when model and implementation agree; multifurcating inputs for the extended solvers"""
    rng = ctx.rng
    n = 120 if ctx.quick() else 1500
    bad = 0
    for i in range(n):
        kind = i % 3
        c = R.rand_costs(rng, coherent_only=False, hi=3)
        if rng.random() < 0.3:
            c["sloss"] = 0
        if kind == 0:
            S = R.rand_shape(rng, rng.randint(1, 5))
            case = {"S": S, "O": R.rand_otree(rng, rng.randint(1, 6), R.shape_leaves(S)), "costs": c}
            r = c01.impl_thl(case)
            ok, why = (False, r["error"]) if "error" in r else (True, "")
            if ok:
                for k in ("all", "any", "exh"):
                    ok, why = _valid_plain(case, r[k])
                    if not ok:
                        break
        elif kind == 1:
            case = dict(c02.rand_case(rng, 4, 3, 3), costs=c)
            r = c02.impl(case)
            ok, why = True, ""
            for k in ("ext", "base"):
                for sol in (r.get(k) or []) + r.get(k + "_any", []):
                    ok, why = LB.valid_ordered(case["S"], case["O"], sol, pres=case.get("pres"))
                    if not ok:
                        break
                if not ok or r.get(k) is None and "error" not in r:
                    ok = ok and r.get(k) is not None
                    why = why or f"{k} raised {r.get(k + '_error')}"
                    break
        else:
            case = dict(c03.rand_case(rng, 5, 3, 4), costs=c)
            r = c03.impl(case)
            ok, why = True, ""
            for k in ("ext", "base"):
                if r.get(k) is None:
                    ok, why = False, f"{k} raised {r.get(k + '_error')}"
                    break
                for sol in r[k] + r[k + "_any"]:
                    ok, why = LB.valid_unordered(case["S"], case["O"], sol)
                    if not ok:
                        break
                if not ok:
                    break
        ctx.evaluations += 1
        if not ok:
            ctx.findings.append(Finding("validity_sample", case, r, "(validity predicate)", False, why))
            bad += 1
    ctx.notes.append(f"validity predicates evaluated on {n} further random inputs (arbitrary costs), {bad} failures")
    _polytomy_stage(ctx)


def polytomy_verdict(case):
    """extended solvers (both policies) on a multifurcating input of the C08 generator: every returned solution, read
    on its OWN binary input (a refinement), must satisfy the validity predicates and have finite cost"""
    from . import c08
    from superrec2.utils.dynamic_programming import RetentionPolicy as RP
    fams = sorted({f for v in case["syn"].values() for f in v})
    code = {f: i + 1 for i, f in enumerate(fams)}
    cv = case.get("costs", [0, 1, 1, 1, 1])
    costs = {"spe": cv[0], "dup": cv[1], "hgt": R.INF if cv[2] is None else cv[2], "floss": cv[3], "sloss": cv[4]}
    n = 0
    for pol in (RP.ANY, RP.ALL):
        try:
            res = c08._solvers()[case["solver"]](c08.make_input(case), pol)
        except Exception as e:  # noqa: BLE001
            return False, f"{case['solver']} raised {type(e).__name__} on a polytomous input", n
        if not res:
            return False, f"{case['solver']} returned no solution on a polytomous input", n
        for out in res:
            n += 1
            try:
                shp, sol = R.case_of_output(out, code)
            except ValueError as e:
                return False, str(e), n
            ordered = case["solver"] == "spfs"
            ok, why = (LB.valid_ordered if ordered else LB.valid_unordered)(shp["S"], shp["O"], sol)
            if not ok:
                return False, f"{case['solver']} on a polytomous input: {why}", n
            if LB.cost_labelled(shp["S"], sol, costs, ordered) == float("inf") or out.cost() == float("inf"):
                return False, f"{case['solver']} on a polytomous input: a returned solution has infinite cost", n
            want = {o: sorted(code[f] for f in v) if not ordered else [code[f] for f in v] for o, v in case["syn"].items()}
            got = {l.name: (list(y["syn"])) for l, (_, y) in zip(out.input.object_tree.iter_leaves(), R.otree_leaves(shp["O"]))}
            if got != want:
                return False, f"{case['solver']} on a polytomous input: leaf syntenies changed ({got} for {want})", n
    return True, "every solution valid on its refinement, finite cost, leaf data kept", n


def _polytomy_stage(ctx):
    from . import c08
    cases = c08._solver_cases(ctx.rng, ctx.quick())
    bad = sols = 0
    for case in cases:
        ok, why, n = polytomy_verdict(case)
        sols += n
        ctx.evaluations += 1
        if not ok:
            bad += 1
            if bad <= 3:
                ctx.findings.append(Finding("polytomy_validity", case, {"verdict": why}, "(validity predicate)", False, why))
    ctx.dist["polytomy_validity"] = {"inputs": len(cases), "solutions_checked": sols, "failures": bad}
    ctx.notes.append(f"multifurcating inputs: {len(cases)} inputs, {sols} returned solutions validated on their own refinement, {bad} failures")


def search(ctx):
    """broken tie without a concrete invalid solution: validity predicates on fresh, larger inputs"""
    import time
    rng = ctx.rng
    t0 = time.time()
    budget = 150 if ctx.quick() else 900
    n = 0
    while time.time() - t0 < budget:
        c = R.rand_costs(rng, coherent_only=False, hi=3)
        if n % 2 == 0:
            case = dict(c03.rand_case(rng, 7, 4, 4, chain=0.6), costs=c)
            r = c03.impl(case)
            for k in ("ext", "base"):
                for sol in (r.get(k) or []) + r.get(k + "_any", []):
                    ok, why = LB.valid_unordered(case["S"], case["O"], sol)
                    if not ok:
                        return Finding("search", case, r, "(validity predicate)", False, f"{k}: {why}")
        else:
            case = dict(c02.rand_case(rng, 5, 3, 3), costs=c)
            r = c02.impl(case)
            for k in ("ext", "base"):
                for sol in (r.get(k) or []) + r.get(k + "_any", []):
                    ok, why = LB.valid_ordered(case["S"], case["O"], sol, pres=case.get("pres"))
                    if not ok:
                        return Finding("search", case, r, "(validity predicate)", False, f"{k}: {why}")
        n += 1
        ctx.evaluations += 1
    ctx.notes.append(f"failing-input search: {n} fresh inputs, no invalid solution")
    return None


def replay_case(payload):
    """search / validity_sample findings: validity predicates on every solution returned for the stored input
    (ordered inputs carry a "pres" key, unordered ones do not)"""
    case = payload["case"]
    if payload.get("batch") == "polytomy_validity":
        ok, why, _ = polytomy_verdict(case)
        return ok, why, {"verdict": why}
    if "pres" not in case and all(not l.get("syn") for _, l in R.otree_leaves(case["O"])):
        r = c01.impl_thl(case)
        if "error" in r:
            return False, r["error"], r
        for k in ("all", "any", "exh"):
            ok, why = _valid_plain(case, r[k])
            if not ok:
                return False, f"{k}: {why}", r
        return True, "every returned reconciliation is valid", r
    mod, valid = (c02, LB.valid_ordered) if "pres" in case else (c03, LB.valid_unordered)
    r = mod.impl(case)
    for k in ("ext", "base"):
        if r.get(k) is None:
            return False, f"{k} raised {r.get(k + '_error')}", r
        for sol in r[k] + r.get(k + "_any", []):
            ok, why = (valid(case["S"], case["O"], sol, pres=case.get("pres")) if "pres" in case else valid(case["S"], case["O"], sol))
            if not ok:
                return False, f"{k}: {why}", r
    return True, "every returned solution is valid", r
