"""C12 — the command-line tool names nodes, reports the true cost, writes readable output."""
from __future__ import annotations

import argparse
import contextlib
import io
import json
import os
import re
import subprocess
import sys

from .. import core
from ..core import Batch, cbool, clist, copt, cpair, cstr

ID = "C12"
LEVEL = "proof"
PROP_FILE = "Properties/C12.v"
PROOF_FILES = ["Proofs/CliExtraProofs.v", "Proofs/LabelProofs.v", "Model/Label.v", "Model/Cli.v", "Gen/CliTable.v", "Model/CliRun.v", "Proofs/CliRunProofs.v"]
TRUSTED = [
    "model Model/Label.v of ReconciliationInput.label_internal and get_species_mapping (names as Coq strings, a tree as its pre-order name list plus its shape)",
    "model Model/Cli.v of the dispatch decision of cli/reconcile.py:call_algorithm",
    "translator/cli_table.py (fail-closed ast translator; its output Gen/CliTable.v is plain data re-checked by the kernel on every run)",
    "model Model/CliRun.v of the whole `reconcile` command on binary inputs (read_input -> label_internal -> dispatch -> solver models of C01-C03/C07 -> "
    "'Minimum cost' = evaluator on one result -> one to_dict per result through Model/Serial.v); the association key -> solver function is written in the model "
    "(the generated table only carries the annotations) and is tied to the code by the cli_pipeline batch; the evaluator glue at the end of that file "
    "(parse_back, to_rtree, to_ltree, eval_routput, eval_soutput, eval_result, own_num) and output_events (Proofs/C11EvalProofs.v) model from_dict + cost() / node_event "
    "and are tied to them by the cli_glue batch",
]
ASSUMES = [
    "ete3: Newick reader/writer (format 1 / 8), traverse('preorder') order, `name in tree` = some node carries that name, iteration over a tree = its leaves",
    "names are printable ASCII (str.lower modelled on A-Z only)",
    "process-level behaviour (exit status, stdout/stderr, json, argparse, draw with the stub TeX measurer) is sampled, not proved",
    "pipeline theorems (Proofs/CliRunProofs.v): ete3's Newick writer/reader = the Gallina pair of C11 (print_tree/parse_tree), json.dump/load = identity on the dictionaries, "
    "integer unit costs (transfer cost possibly infinite), binary trees; gene families are numbered by first occurrence, and the evaluator is proved independent of the numbering",
]
RULE = ("label cases: rose trees (arity 1-4) whose nodes are unnamed / 'NoName' / named, names drawn from O#/S# look-alikes (O3, O01, o1, S1 ...) "
        "and ordinary names, with and without duplicates; non-trivial = at least one unnamed node and at least one given name of the form <prefix><digits>; "
        "species-mapping cases: species leaf lists with underscores, case variants, empty names and case-insensitive collisions against object names with 0-4 underscores; "
        "non-trivial = some species matches; "
        "CLI cases: random documented-format inputs (binary trees, 2-5 object leaves on 2-4 species, ancestors unnamed / partially / fully named incl. look-alikes, "
        "leaf_object_species given or left to the <species>_<id> convention, with/without leaf_syntenies, a few polytomies for ext_spfs/superdtl) x 7 algorithms "
        "(plus unknown keys) x cost options, each run under both policies, in-process and (a sample) as `python -m superrec2.cli`; "
        "non-trivial = the algorithm ran and the input had an unnamed ancestor; "
        "glue cases: every distinct line written by the status-0 runs of the pipeline cases (binary inputs, integer unit costs), with the minimum printed by that run; "
        "non-trivial = the line parses back and its object tree has at least two internal nodes")
OPEN_GOALS: list = []
TECHNIQUE = ("Coq proofs (induction on the pre-order name list, pigeonhole bound for the skipping counter, reflection over the generated dispatch table) of the naming and dispatch laws; "
             "models tied to the code by random correspondence evaluated with vm_compute; process-level clauses checked end-to-end on the same sample")
LEVEL_TEXT = ("Machine-checked for trees of any size and shape: label_internal terminates, keeps the shape and every given name, gives every unnamed node a non-empty generated name "
              "with strictly increasing, minimal indices in pre-order, all names pairwise distinct when the given ones are, and is idempotent; get_species_mapping picks the first "
              "underscore-terminated prefix that names a species (case-insensitive); over the table regenerated from cli/reconcile.py the seven documented keys are present, every "
              "super-reconciliation algorithm without syntenies is refused and every other combination runs. "
              "Whole command, for the pipeline model on binary inputs (Model/CliRun.v, Proofs/CliRunProofs.v): every theorem of this paragraph except the last one is CONDITIONAL on the "
              "model's run ending with status 0 (premise `cli_run x = CliOk warned m objs`); no theorem says for which input files the command succeeds (the model may also end in "
              "CliRaise, CliNoSolution or CliOutOfModel), so 'for every input file ... writes one JSON object per solution' is proved only as 'whenever it writes, then ...'; that the "
              "runs of the sample do succeed, and end as the real tool does, is sampled by the cli_pipeline batch, not proved. Under that premise, for input files with the leaf "
              "mapping given or inferred from the <species>_<id> convention (cli_wf_any) and any integer unit costs whose transfer cost is not minus infinity (premise `nn (c_hgt)`, "
              "`nn x` := x <> -inf: a finite transfer cost of either sign or +infinity; no sign condition is needed for this clause): every written object parses back (C11 reader) "
              "to a solution on the re-read input whose evaluated cost `eval_result (own_num r) r` is the printed minimum cost (the evaluator's numbering of the families is irrelevant); "
              "the objects are pairwise distinct and one per solver result; the written trees have pairwise distinct non-empty names, given names untouched and O#/S# elsewhere, and are "
              "the label_internal images of the input trees; inside the coherent region of each DP solver everything written under --solutions any is written under --solutions all and "
              "both print the same minimum. Without a success premise: a super-reconciliation algorithm without syntenies ends in Error (status 1) or with an exception of read_input, "
              "and never writes anything. "
              "Sampled only (correspondence, not proof): that the real tool behaves as the pipeline model (exit status, printed minimum, set of JSON objects - batch cli_pipeline); that "
              "the evaluator glue in which the cost theorems are stated (parse_back, eval_result = eval_routput / eval_soutput over to_rtree / to_ltree / own_num, and output_events) "
              "computes what the package's from_dict(...).cost() and node_event compute, on every line the real tool wrote in that sample (batch cli_glue, exact comparison); "
              "draw accepting every object; polytomous inputs end to end.")
LEVEL_NOTE = ("Trusted: Coq kernel; the hand-written models and the translator (differential testing on the explored domain); ete3/json/argparse behaviour. "
              "The cost and all/any clauses are theorems about the pipeline model (composition of C01-C03/C05/C07, C06 and C11), tied to the real command by the cli_pipeline batch "
              "(endings, printed minimum, written dictionaries) and the cli_glue batch (the evaluator that reads a written dictionary back: cost and node events against the real classes). "
              "They are success-conditional (premise CliOk): totality of the command on well-formed input files is sampled, not proved. "
              "`nn` in the statements means 'not minus infinity' (Proofs/ThlProofs.v), not 'non-negative'. "
              "Theorems are about the repaired read_input (fix D7).")

SUPER_ALGOS = ("base_spfs", "ext_spfs", "base_uspfs", "superdtl")     # documented super-reconciliation algorithms
PLAIN_ALGOS = ("exh", "lca", "thl")
WARN_TEXT = "is not a super-reconciliation algorithm"
ERR_TEXT = "is a super-reconciliation algorithm"


def pre_build(ctx):
    from translator import cli_table
    changed = cli_table.regenerate(core.REPO)
    ctx.notes.append("Gen/CliTable.v " + ("regenerated (content changed)" if changed else "regenerated: unchanged"))
    # the pipeline model and its theorems (re-checked over the regenerated table)
    ok, out = core.build_targets([f for f in PIPE_FILES if (core.COQ / f).exists()])
    _STATE["pipe_ok"] = ok
    if not ok:
        ctx.notes.append("Model/CliRun.v / Proofs/CliRunProofs.v do not build: " + out[-800:])


# ---------------------------------------------------------------------------
# trees as nested lists [name, [children]]

def nwk(t) -> str:
    name, cs = t
    return ("(" + ",".join(nwk(c) for c in cs) + ")" if cs else "") + name


def preorder(t):
    out = [t[0]]
    for c in t[1]:
        out.extend(preorder(c))
    return out


def leaves(t):
    if not t[1]:
        return [t[0]]
    return [x for c in t[1] for x in leaves(c)]


def shape(t):
    return [shape(c) for c in t[1]]


def is_binary(t):
    return len(t[1]) in (0, 2) and all(is_binary(c) for c in t[1])


def unnamed(s: str) -> bool:
    return s == "" or s == "NoName"


def parse_newick(s: str):
    """Tiny independent Newick reader: (..)name[:dist][[comment]] ; returns nested lists or None."""
    s = s.strip()
    if not s.endswith(";"):
        return None
    s = s[:-1]
    pos = 0

    def node():
        nonlocal pos
        cs = []
        if pos < len(s) and s[pos] == "(":
            pos += 1
            while True:
                c = node()
                if c is None:
                    return None
                cs.append(c)
                if pos < len(s) and s[pos] == ",":
                    pos += 1
                    continue
                if pos < len(s) and s[pos] == ")":
                    pos += 1
                    break
                return None
        m = re.compile(r"[^(),;:\[\]]*").match(s, pos)
        name = m.group(0)
        pos = m.end()
        m = re.compile(r"(:[-+0-9.eE]+)?(\[[^\]]*\])?").match(s, pos)
        pos = m.end()
        return [name, cs]

    t = node()
    if t is None or pos != len(s):
        return None
    return t


def enc_tree(t) -> str:
    return "(NT " + cstr(t[0]) + " " + clist(enc_tree(c) for c in t[1]) + ")"


# ---------------------------------------------------------------------------
# Coq side

HEADER = """From Coq Require Import String.
From SR Require Import Model.Label Model.Cli Gen.CliTable.
Definition opt_eqb {A} (f : A -> A -> bool) (a b : option A) := match a, b with Some x, Some y => f x y | None, None => true | _, _ => false end.
Fixpoint list_eqb {A} (f : A -> A -> bool) (a b : list A) := match a, b with [] , [] => true | x :: a', y :: b' => f x y && list_eqb f a' b' | _, _ => false end.
Definition names_eqb := opt_eqb (list_eqb String.eqb).
Definition run_label (x : bool * ntree string) : option (list string) :=
  let '(obj, t) := x in
  match (if obj then label_object_tree t else label_species_tree t) with Some t' => Some (preorder t') | None => None end.
Definition run_mapping (x : list string * list string) : option (list (option nat)) :=
  let '(species, names) := x in Some (map (species_prefix_mapping species) names).
Definition runs (o : outcome) : bool := match o with Decided Run | Decided RunWithWarning => true | _ => false end.
Definition cli_out := (option outcome * option (list string * list string) * option (list (option string)) * bool)%type.
Definition run_cli (x : string * bool * bool * bool * ntree string * ntree string) : cli_out :=
  let '(key, has_syn, binary, omitted, obj, sp) := x in
  let o := dispatch key has_syn in
  (Some o,
   (if runs o && binary then
      match label_object_tree obj, label_species_tree sp with
      | Some a, Some b => Some (preorder a, preorder b)
      | _, _ => None
      end
    else None),
   (if runs o && omitted then
      Some (map (fun n => match species_prefix_mapping (leaves sp) n with
                          | Some i => nth_error (leaves sp) i
                          | None => None
                          end) (leaves obj))
    else None),
   true).
Definition cli_eqb (a b : cli_out) : bool :=
  let '(o1, n1, m1, k1) := a in let '(o2, n2, m2, k2) := b in
  opt_eqb outcome_eqb o1 o2 &&
  opt_eqb (fun p q => list_eqb String.eqb (fst p) (fst q) && list_eqb String.eqb (snd p) (snd q)) n1 n2 &&
  opt_eqb (list_eqb (opt_eqb String.eqb)) m1 m2 && Bool.eqb k1 k2.
"""


# ---------------------------------------------------------------------------
# generators

OBJ_ANC_LOOKALIKE = ["O0", "O1", "O2", "O3", "O4", "O10", "O01", "o1", "O", "S0", "S1", "O1x"]
OBJ_ANC_PLAIN = ["anc1", "root", "N7", "A", "dup_2", "n", "G12"]
SP_ANC_LOOKALIKE = ["S0", "S1", "S2", "S3", "S4", "S10", "S01", "s1", "S", "O0", "O3", "S2b"]
SP_ANC_PLAIN = ["AncXY", "root", "M", "clade_1", "P9"]
SPECIES_POOL = ["X", "Y", "Z", "W", "V", "Sp1", "S1", "S2", "a_b", "Hs", "mus", "O0"]
FAMILIES = ["f", "g", "h", "k"]


def random_binary(rng, leaf_names):
    nodes = [[n, []] for n in leaf_names]
    while len(nodes) > 1:
        i, j = sorted(rng.sample(range(len(nodes)), 2))
        b = nodes.pop(j)
        a = nodes.pop(i)
        nodes.append(["", [a, b] if rng.random() < 0.5 else [b, a]])
    return nodes[0]


def random_rose(rng, n_leaves, leaf_name):
    """random rose tree with arities 1-4; leaves named by leaf_name(i)."""
    nodes = [[leaf_name(i), []] for i in range(n_leaves)]
    while len(nodes) > 1:
        k = min(len(nodes), rng.choice([1, 2, 2, 2, 3, 4]))
        picked = sorted(rng.sample(range(len(nodes)), k), reverse=True)
        cs = [nodes.pop(i) for i in picked]
        rng.shuffle(cs)
        nodes.append(["", cs])
    t = nodes[0]
    if rng.random() < 0.15:
        t = ["", [t]]
    return t


def name_ancestors(rng, t, mode, pool_look, pool_plain, taken, allow_dup=False, noname=0.15):
    """assign names to the internal nodes of t (in place) according to mode."""
    pool = [p for p in pool_look + pool_plain if allow_dup or p not in taken]
    rng.shuffle(pool)
    bias = rng.random()           # share of look-alike names

    def pick():
        cands = [p for p in pool if (p in pool_look) == (rng.random() < bias)] or pool
        if not cands:
            return ""
        p = rng.choice(cands)
        if not allow_dup or rng.random() < 0.7:
            pool.remove(p)
        return p

    def go(n):
        if n[1]:
            if mode == "named" or (mode == "partial" and rng.random() < 0.5):
                n[0] = pick()
            else:
                n[0] = "NoName" if rng.random() < noname else ""
            for c in n[1]:
                go(c)
    go(t)
    return t


def gen_cli_case(rng, k):
    nsp = rng.choice([2, 2, 3, 3, 4])
    species = rng.sample(SPECIES_POOL, nsp)
    sp = random_binary(rng, species)
    nobj = rng.choice([2, 3, 3, 4, 4, 5])
    omitted = rng.random() < 0.4
    leaf_species = {}
    for i in range(nobj):
        s = rng.choice(species)
        shown = s
        if omitted and rng.random() < 0.3:
            shown = rng.choice([s.lower(), s.upper()])       # matching is case-insensitive
        leaf_species[f"{shown}_{i + 1}"] = s
    obj = random_binary(rng, list(leaf_species))
    polytomy = False
    if rng.random() < 0.06 and nobj >= 3:
        # collapse one internal edge of the object tree into a ternary node
        cands = []

        def collect(n):
            for c in n[1]:
                if c[1]:
                    cands.append((n, c))
                collect(c)
        collect(obj)
        if cands:
            p, c = rng.choice(cands)
            i = p[1].index(c)
            p[1][i:i + 1] = c[1]
            polytomy = True
    mode_o = rng.choice(["unnamed", "unnamed", "partial", "partial", "named"])
    mode_s = rng.choice(["unnamed", "unnamed", "partial", "partial", "named"])
    name_ancestors(rng, obj, mode_o, OBJ_ANC_LOOKALIKE, OBJ_ANC_PLAIN, set(leaf_species))
    name_ancestors(rng, sp, mode_s, SP_ANC_LOOKALIKE, SP_ANC_PLAIN, set(species))
    has_syn = polytomy or rng.random() < 0.6
    syn = None
    if has_syn:
        nf = rng.choice([1, 2, 3, 3, 4])
        fams = FAMILIES[:nf]
        syn = {}
        for leaf in leaf_species:
            s = [f for f in fams if rng.random() < 0.7] or [rng.choice(fams)]
            syn[leaf] = s
    if polytomy:
        algo = rng.choice(["ext_spfs", "superdtl"])
    elif rng.random() < 0.03:
        algo = rng.choice(["spfs", "dtl", "LCA", ""])
    else:
        algo = rng.choice(PLAIN_ALGOS + SUPER_ALGOS)
    costs = {}
    # the cost options are Python expressions: integers, fractions (dyadic, exact in binary), infinity
    for nm, vals in (("spe", [0, 0, 1, 0.5]), ("dup", [0, 1, 2, 3, 1.5, 0.25]), ("hgt", [0, 1, 2, 3, "float('inf')", "2*2", 2.5, "3/2"]),
                     ("floss", [0, 1, 2, 3, 0.5, 1.25]), ("sloss", [0, 1, 2, 3, 0.75])):
        if rng.random() < 0.45:
            costs[nm] = rng.choice(vals)
    if rng.random() < 0.12:
        # totals with many significant digits: large unit costs, fractions that are not dyadic (the printed minimum must
        # still be the evaluated cost of what is written, not a rounded rendering of it)
        nm = rng.choice(["dup", "dup", "floss", "hgt"])
        costs[nm] = rng.choice({"dup": [1234567, "10**7+1", "7/3"], "floss": [100003, "1/3", "2/7"], "hgt": [7654321, "1/3", "10**8+7"]}[nm])
    return {"k": k, "obj": obj, "sp": sp, "omitted": omitted, "leaf_species": leaf_species, "syn": syn,
            "algo": algo, "costs": costs, "orient": rng.choice(["horizontal", "vertical"]), "mode": "inproc"}


def input_json(c) -> str:
    d = {"object_tree": nwk(c["obj"]) + ";", "species_tree": nwk(c["sp"]) + ";"}
    if not c["omitted"]:
        d["leaf_object_species"] = dict(c["leaf_species"])
    if c["syn"] is not None:
        d["leaf_syntenies"] = c["syn"]
    return json.dumps(d)


def cli_argv(c, policy):
    argv = ["reconcile", c["algo"], "--solutions", policy]
    for nm, v in c["costs"].items():
        argv += [f"--cost-{nm}", str(v)]
    return argv


# ---------------------------------------------------------------------------
# running the implementation

_STATE = {}


def _cli():
    if "parser" not in _STATE:
        os.environ.setdefault("TQDM_DISABLE", "1")
        from superrec2.cli import reconcile as R, draw as Dr
        from superrec2.utils import tex
        from superrec2.model import reconciliation as M

        def stub_measure(texts, preamble=""):
            return [tex.MeasureBox(width=10.0 + len(str(t)) % 7, height=6.0, depth=2.0) for t in texts]
        tex.measure = stub_measure
        parser = argparse.ArgumentParser(prog="superrec2")
        sub = parser.add_subparsers(required=True)
        R.add_args(sub)
        Dr.add_args(sub)
        _STATE.update(parser=parser, R=R, Dr=Dr, M=M)
    return _STATE


def _status(v):
    if v is None:
        return 0
    if isinstance(v, bool):
        return int(v)
    if isinstance(v, int):
        return v
    return 1     # sys.exit(<other object>) prints it and exits 1


def run_reconcile_inproc(c, policy):
    st = _cli()
    out, err = io.StringIO(), io.StringIO()
    with contextlib.redirect_stderr(err), contextlib.redirect_stdout(out):
        try:
            args = st["parser"].parse_args(cli_argv(c, policy))
            args.input = io.StringIO(input_json(c))
            args.output = out
            status = _status(args.func(args))
        except SystemExit as e:
            status = _status(e.code)
        except Exception as e:           # an uncaught exception ends the process with status 1 and a traceback
            status = 1
            err.write(f"Traceback: {type(e).__name__}: {e}\n")
    return {"status": status, "stdout": out.getvalue(), "stderr": err.getvalue()[-2000:]}


def run_reconcile_subprocess(c, policy):
    env = dict(os.environ)
    env["PYTHONPATH"] = str(core.REPO / "src")
    env["TQDM_DISABLE"] = "1"
    try:
        p = subprocess.run([sys.executable, "-m", "superrec2.cli"] + cli_argv(c, policy), input=input_json(c),
                           stdout=subprocess.PIPE, stderr=subprocess.PIPE, text=True, env=env, timeout=300)
        return {"status": p.returncode, "stdout": p.stdout, "stderr": p.stderr[-2000:]}
    except subprocess.TimeoutExpired:
        return {"status": 124, "stdout": "", "stderr": "TIMEOUT"}


def parse_back_and_draw(line, orient):
    """(cost of the parsed-back object as text, draw verdict)."""
    st = _cli()
    M, Dr = st["M"], st["Dr"]
    try:
        d = json.loads(line)
        cls = M.SuperReconciliationOutput if "syntenies" in d else M.ReconciliationOutput
        cost = str(cls.from_dict(d).cost())
    except Exception as e:
        cost = f"exc:{type(e).__name__}"
    try:
        a = argparse.Namespace(input=io.StringIO(line), output=io.BytesIO(), output_type="tikz", orientation=orient)
        with contextlib.redirect_stderr(io.StringIO()), contextlib.redirect_stdout(io.StringIO()):
            rc = Dr.draw(a)
        drawn = (rc == 0 and len(a.output.getvalue()) > 0) or f"status {rc}"
    except BaseException as e:
        drawn = f"exc:{type(e).__name__}: {e}"[:200]
    return cost, drawn


def impl_cli(c):
    res = {}
    for pol in ("any", "all"):
        r = run_reconcile_subprocess(c, pol) if c.get("mode") == "subprocess" else run_reconcile_inproc(c, pol)
        lines = r["stdout"].splitlines()
        if len(lines) > 400:          # keep results JSON-able and small; the count is kept
            r["truncated_from"] = len(lines)
            lines = lines[:400]
            r["stdout"] = "\n".join(lines) + "\n"
        r["back"] = [list(parse_back_and_draw(l, c["orient"])) for l in lines]
        res[pol] = r
    return res


# ---------------------------------------------------------------------------
# reading the implementation's answer

def same_cost(a, b):
    """costs as numbers: the tool prints 4 where the object's cost is the float 4.0 (fractional unit costs)"""
    if a == b:
        return True
    try:
        x, y = float(a), float(b)
    except (TypeError, ValueError):
        return False
    return x == y or abs(x - y) <= 1e-9 * max(1.0, abs(x), abs(y))


def printed_cost(stderr):
    m = re.findall(r"^Minimum cost: (.*)$", stderr, flags=re.M)
    return m[-1].strip() if m else None


def observed_outcome(res):
    kinds = set()
    for pol in ("any", "all"):
        r = res[pol]
        if r["status"] == 0 and r["stdout"].strip():
            kinds.add("warn" if WARN_TEXT in r["stderr"] else "run")
        elif r["status"] == 1 and r["stdout"] == "" and ERR_TEXT in r["stderr"] and "Traceback" not in r["stderr"]:
            kinds.add("error")
        elif r["status"] == 2 and r["stdout"] == "" and "invalid choice" in r["stderr"]:
            kinds.add("rejected")
        else:
            kinds.add("other")
    return kinds.pop() if len(kinds) == 1 else "other"


def first_object(res):
    for pol in ("all", "any"):
        for line in res[pol]["stdout"].splitlines():
            try:
                d = json.loads(line)
                if isinstance(d, dict) and isinstance(d.get("input"), dict):
                    return d
            except ValueError:
                pass
            return None
    return None


def canon(line):
    return json.dumps(json.loads(line), sort_keys=True)


def check_tree_names(given, got_nwk, prefix):
    """Property text on one tree: every node a distinct non-empty name; unnamed nodes became
    <prefix># with increasing indices in pre-order; existing names untouched."""
    got = parse_newick(got_nwk) if isinstance(got_nwk, str) else None
    if got is None:
        return f"tree {got_nwk!r} is not readable Newick"
    names = preorder(got)
    if any(unnamed(n) for n in names):
        return f"a node of {got_nwk} has no name"
    if len(set(names)) != len(names):
        return f"two nodes of {got_nwk} share a name"
    if is_binary(given):
        if shape(got) != shape(given):
            return f"tree {got_nwk} does not have the shape of the input tree {nwk(given)}"
        last = -1
        for a, b in zip(preorder(given), names):
            if not unnamed(a):
                if a != b:
                    return f"existing name {a!r} was changed to {b!r}"
            else:
                m = re.fullmatch(re.escape(prefix) + r"(\d+)", b)
                if not m:
                    return f"unnamed node was named {b!r}, not {prefix}#"
                if int(m.group(1)) <= last:
                    return f"generated names of {got_nwk} are not increasing in pre-order"
                last = int(m.group(1))
    else:
        # a multifurcation is resolved by the algorithm: the given names must survive, new ones are <prefix>#
        g = [a for a in preorder(given) if not unnamed(a)]
        if any(a not in names for a in g):
            return f"an existing name of {nwk(given)} is missing from {got_nwk}"
        if any(not re.fullmatch(re.escape(prefix) + r"\d+", b) for b in names if b not in g):
            return f"a generated name of {got_nwk} is not {prefix}#"
    return None


def oracle_cli(c, res):
    """The property text applied to what the command line tool did."""
    algo, has_syn = c["algo"], c["syn"] is not None
    if algo not in PLAIN_ALGOS + SUPER_ALGOS:
        return True, "not one of the seven algorithms: outside the property's domain"
    given = [a for a in preorder(c["obj"]) + [None] + preorder(c["sp"]) if a is None or not unnamed(a)]
    i = given.index(None)
    if len(set(given[:i])) != i or len(set(given[i + 1:])) != len(given) - i - 1:
        return True, "given names are not distinct: outside the property's domain"
    if algo in SUPER_ALGOS and not has_syn:
        for pol in ("any", "all"):
            r = res[pol]
            if r["status"] != 1 or r["stdout"] != "":
                return False, (f"super-reconciliation algorithm {algo} without syntenies (--solutions {pol}): "
                               f"status {r['status']}, {len(r['stdout'])} characters written; expected status 1 and nothing")
        return True, "refused with status 1 and no output"
    sets = {}
    for pol in ("any", "all"):
        r = res[pol]
        lines = r["stdout"].splitlines()
        if r["status"] != 0:
            return False, f"{algo} --solutions {pol} exited with status {r['status']}: {r['stderr'][-200:]!r}"
        if not lines or (pol == "any" and len(lines) != 1):
            return False, f"{algo} --solutions {pol} wrote {len(lines)} lines"
        cost = printed_cost(r["stderr"])
        if cost is None:
            return False, f"{algo} --solutions {pol} printed no minimum cost"
        objs = []
        for j, line in enumerate(lines):
            try:
                d = json.loads(line)
            except ValueError:
                return False, f"line {j} of --solutions {pol} is not JSON"
            if not isinstance(d, dict) or not isinstance(d.get("input"), dict):
                return False, f"line {j} of --solutions {pol} is not a solution object"
            for key, tree, prefix in (("object_tree", c["obj"], "O"), ("species_tree", c["sp"], "S")):
                why = check_tree_names(tree, d["input"].get(key), prefix)
                if why:
                    return False, f"--solutions {pol}, line {j}: {why}"
            n_nodes = len(preorder(parse_newick(d["input"]["object_tree"])))
            if not isinstance(d.get("object_species"), dict) or len(d["object_species"]) != n_nodes:
                return False, f"--solutions {pol}, line {j}: object_species does not have one entry per object node"
            if c["omitted"]:
                want = {leaf: s for leaf, s in c["leaf_species"].items()}
                if d["input"].get("leaf_object_species") != want:
                    return False, f"--solutions {pol}, line {j}: leaves were not mapped by the <species>_<id> convention"
            # the unit costs the solution was computed and is evaluated under are the ones asked for on the command line
            # (defaults 0/1/1/1/1 for the options not given): an explicit 0 must not fall back to the default
            wc = d["input"].get("costs")
            if isinstance(wc, dict):
                full = _full_costs(c)
                for nm, key in (("spe", "SPECIATION"), ("dup", "DUPLICATION"), ("hgt", "HORIZONTAL_TRANSFER"), ("floss", "FULL_LOSS"), ("sloss", "SEGMENTAL_LOSS")):
                    if key in wc and not same_cost(wc[key], full[nm]):
                        return False, (f"--solutions {pol}, line {j}: the written object carries unit cost {key} = {wc[key]} "
                                       f"although the command line asked for {full[nm]}")
            back_cost, drawn = r["back"][j]
            if not same_cost(back_cost, cost):
                return False, f"--solutions {pol}, line {j}: parsed-back cost {back_cost} but printed minimum cost {cost}"
            if drawn is not True:
                return False, f"--solutions {pol}, line {j}: draw did not accept the object ({drawn})"
            objs.append(canon(line))
        if len(set(objs)) != len(objs):
            return False, f"--solutions {pol} wrote the same solution twice"
        sets[pol] = set(objs)
    if not same_cost(printed_cost(res["any"]["stderr"]), printed_cost(res["all"]["stderr"])):
        return False, ("the two policies print different minimum costs, so --solutions all cannot contain the solution of --solutions any "
                       f"(any: {printed_cost(res['any']['stderr'])}, all: {printed_cost(res['all']['stderr'])})")
    if "truncated_from" not in res["all"] and not sets["any"] <= sets["all"]:
        return False, "--solutions all does not contain the solution of --solutions any"
    return True, "every clause of the property holds on this run"


def enc_cli_in(c):
    return cpair(cstr(c["algo"]), cbool(c["syn"] is not None), cbool(is_binary(c["obj"]) and is_binary(c["sp"])),
                 cbool(c["omitted"]), enc_tree(c["obj"]), enc_tree(c["sp"]))


OUTCOME_COQ = {"run": "(Some (Decided Run))", "warn": "(Some (Decided RunWithWarning))", "error": "(Some (Decided Error))",
               "rejected": "(Some Rejected)", "other": "None"}


def _ascii(s):
    return isinstance(s, str) and all(32 <= ord(ch) < 127 for ch in s)


def enc_cli_out(c, res):
    oc = observed_outcome(res)
    names, mapping = None, None
    d = first_object(res) if oc in ("run", "warn") else None
    binary = is_binary(c["obj"]) and is_binary(c["sp"])
    if d is not None:
        to = parse_newick(d["input"].get("object_tree", "")) if isinstance(d["input"].get("object_tree"), str) else None
        ts = parse_newick(d["input"].get("species_tree", "")) if isinstance(d["input"].get("species_tree"), str) else None
        if binary and to is not None and ts is not None and all(_ascii(n) for n in preorder(to) + preorder(ts)):
            names = cpair(clist(map(cstr, preorder(to))), clist(map(cstr, preorder(ts))))
        if c["omitted"]:
            m = d["input"].get("leaf_object_species")
            if isinstance(m, dict):
                mapping = clist(copt(cstr(m[l]) if _ascii(m.get(l)) else None) for l in leaves(c["obj"]))
    ok, _ = oracle_cli(c, res)
    return cpair(OUTCOME_COQ[oc], copt(names), copt(mapping), cbool(bool(ok)))


# ---------------------------------------------------------------------------
# known findings (known_findings.jsonl): D7 is fixed; its witness must keep passing

def replay_known(ctx, kf):
    w = kf.get("witness") or {}
    obj = parse_newick(w.get("object_tree", ""))
    sp = parse_newick(w.get("species_tree", ""))
    if obj is None or sp is None:
        return False, "witness not understood"
    by_lower = {s.lower(): s for s in leaves(sp)}
    leaf_species = {l: by_lower.get(l.split("_")[0].lower()) for l in leaves(obj)}
    c = {"k": -1, "obj": obj, "sp": sp, "omitted": True, "leaf_species": leaf_species, "syn": None,
         "algo": w.get("algorithm", "lca"), "costs": {}, "orient": "horizontal", "mode": "inproc"}
    res = impl_cli(c)
    ok, detail = oracle_cli(c, res)
    return (not ok), detail


def batches(ctx):
    rng = ctx.rng
    quick = ctx.quick()

    # ---- 1. label_internal on random trees ---------------------------------
    lcases = []
    n_label = 3000 if quick else 30000
    for k in range(n_label):
        which = rng.choice(["O", "S"])
        look = OBJ_ANC_LOOKALIKE if which == "O" else SP_ANC_LOOKALIKE
        plain = OBJ_ANC_PLAIN if which == "O" else SP_ANC_PLAIN
        n = rng.choice([1, 2, 2, 3, 3, 4, 5, 6, 8, 12])
        style = rng.random()

        def leaf_name(i, style=style, look=look):
            if style < 0.15 and rng.random() < 0.4:
                return rng.choice(look)             # a leaf that looks like a generated name
            if style < 0.3 and rng.random() < 0.3:
                return "NoName"                     # an unnamed leaf (ete3 refuses the empty leaf name)
            return f"{rng.choice(['x', 'y', 'Sp1', 'a_b'])}_{i + 1}"
        t = random_rose(rng, n, leaf_name)
        mode = rng.choice(["unnamed", "partial", "partial", "named"])
        dup = rng.random() < 0.25
        name_ancestors(rng, t, mode, look, plain, set(leaves(t)), allow_dup=dup)
        lcases.append({"which": which, "tree": t})
    # a long run of present names: the counter must skip all of them
    for which in ("O", "S"):
        for m in (3, 11, 12):
            order = list(range(m))
            rng.shuffle(order)
            t = ["", [[f"{which}{j}", [["", [[f"q_{j}", []]]], [f"w_{j}", []]]] for j in order]]
            lcases.append({"which": which, "tree": t})

    def impl_label(c):
        M = _cli()["M"]
        text = nwk(c["tree"]) + ";"
        try:
            if c["which"] == "O":
                r = M.ReconciliationInput.from_dict({"object_tree": text, "species_tree": "(X,Y);", "leaf_object_species": {}})
                r.label_internal()
                return [n.name for n in r.object_tree.traverse("preorder")]
            r = M.ReconciliationInput.from_dict({"object_tree": "(x_1,y_1);", "species_tree": text, "leaf_object_species": {}})
            r.label_internal()
            return [n.name for n in r.species_lca.tree.traverse("preorder")]
        except Exception as e:
            return f"exc:{type(e).__name__}"

    def oracle_label(c, r):
        given = preorder(c["tree"])
        g = [a for a in given if not unnamed(a)]
        if len(set(g)) != len(g):
            return True, "given names are not pairwise distinct: outside the property's domain"
        if not isinstance(r, list):
            return False, f"label_internal failed: {r}"
        if len(r) != len(given):
            return False, "number of nodes changed"
        if any(unnamed(x) for x in r):
            return False, f"a node is still unnamed: {r}"
        if len(set(r)) != len(r):
            return False, f"names are not distinct: {r}"
        last = -1
        for a, b in zip(given, r):
            if not unnamed(a):
                if a != b:
                    return False, f"existing name {a!r} changed to {b!r}"
            else:
                m = re.fullmatch(c["which"] + r"(\d+)", b)
                if not m or int(m.group(1)) <= last:
                    return False, f"generated name {b!r} is not {c['which']}# with an index above {last}"
                last = int(m.group(1))
        return True, "distinct non-empty names, existing ones untouched, generated ones increasing in pre-order"

    ctx.dist["label"] = {
        "cases": len(lcases),
        "with_unnamed": sum(1 for c in lcases if any(unnamed(a) for a in preorder(c["tree"]))),
        "with_lookalike_given": sum(1 for c in lcases if any(re.fullmatch(r"[OS]\d+", a) for a in preorder(c["tree"]))),
        "with_duplicate_given": sum(1 for c in lcases if len({a for a in preorder(c["tree"]) if not unnamed(a)}) < sum(1 for a in preorder(c["tree"]) if not unnamed(a))),
        "max_nodes": max(len(preorder(c["tree"])) for c in lcases),
    }
    yield Batch(
        name="label", header=HEADER, run="run_label", eqb="names_eqb",
        ty_in="bool * ntree string", ty_out="option (list string)",
        cases=lcases, impl=impl_label,
        enc_in=lambda c: cpair(cbool(c["which"] == "O"), enc_tree(c["tree"])),
        enc_out=lambda c, r: copt(clist(map(cstr, r)) if isinstance(r, list) and all(_ascii(x) for x in r) else None),
        oracle=oracle_label,
        nontrivial=lambda c, r: any(unnamed(a) for a in preorder(c["tree"])) and any(re.fullmatch(c["which"] + r"\d+", a) for a in preorder(c["tree"])),
        exhaustive=False, shard=400,
        describe="random rose trees (arity 1-4, up to 12 leaves) read from Newick; ancestors unnamed/'NoName'/named with O#/S# look-alikes, duplicates in a quarter of the cases; chains of present names",
    )

    # ---- 2. get_species_mapping -----------------------------------------------
    mcases = []
    sp_pool = ["X", "x", "Y", "a", "a_b", "A_B", "a_b_c", "Sp1", "sp1", "NoName", "", "b", "_", "a_", "Z9"]
    for k in range(2500 if quick else 25000):
        species = [rng.choice(sp_pool) for _ in range(rng.randint(1, 6))]
        names = []
        for _ in range(rng.randint(1, 5)):
            base = rng.choice(species + sp_pool)
            base = rng.choice([base, base.upper(), base.lower(), base.capitalize()])
            suffix = rng.choice(["", "_1", "_12", "_", "__2", "_x_y", "1", "_b_1", "_B"])
            names.append(rng.choice(["", "_"]) + base + suffix if rng.random() < 0.05 else base + suffix)
        mcases.append({"species": species, "names": names})

    def impl_mapping(c):
        from ete3 import Tree
        from superrec2.model.tree_mapping import get_species_mapping
        st = Tree()
        sl = [st.add_child(name=s) for s in c["species"]]
        ot = Tree()
        ol = [ot.add_child(name=s) for s in c["names"]]
        try:
            m = get_species_mapping(ot, st)
        except Exception as e:
            return f"exc:{type(e).__name__}"
        idx = {id(n): i for i, n in enumerate(sl)}
        return [idx[id(m[n])] if n in m else None for n in ol]

    def oracle_mapping(c, r):
        if not isinstance(r, list):
            return False, f"get_species_mapping failed: {r}"
        sp = c["species"]
        for name, got in zip(c["names"], r):
            want = None     # set of acceptable species indices, from the docstring
            for p in [i for i, ch in enumerate(name) if ch == "_"]:
                hits = [j for j, s in enumerate(sp) if s and s.lower() == name[:p].lower()]
                if hits:
                    want = hits
                    break
            if want is None and got is not None:
                return False, f"{name!r} mapped to species #{got} although no <species>_ prefix matches"
            if want is not None and got not in want:
                return False, f"{name!r} should map to one of the species #{want} (first matching prefix), got {got}"
        return True, "every name is mapped to the species of its first matching prefix"

    ctx.dist["mapping"] = {"cases": len(mcases), "names": sum(len(c["names"]) for c in mcases)}
    yield Batch(
        name="species_mapping", header=HEADER, run="run_mapping",
        eqb="opt_eqb (list_eqb (opt_eqb Nat.eqb))",
        ty_in="list string * list string", ty_out="option (list (option nat))",
        cases=mcases, impl=impl_mapping,
        enc_in=lambda c: cpair(clist(map(cstr, c["species"])), clist(map(cstr, c["names"]))),
        enc_out=lambda c, r: copt(clist(copt(None if x is None else core.cnat(x)) for x in r) if isinstance(r, list) else None),
        oracle=oracle_mapping,
        nontrivial=lambda c, r: isinstance(r, list) and any(x is not None for x in r),
        exhaustive=False, shard=600,
        describe="random species leaf lists (underscores, case variants, empty names, case-insensitive collisions) x object names with 0-4 underscores",
    )

    # ---- 3. command line, end to end ----------------------------------------------
    ccases = []
    n_cli = 600 if quick else 5000
    n_sub = 30 if quick else 200
    for k in range(n_cli):
        ccases.append(gen_cli_case(rng, k))
    # every algorithm with and without syntenies on the README example (unnamed ancestors)
    readme = {"obj": ["", [["", [["x_1", []], ["x_2", []]]], ["y_1", []]]], "sp": ["", [["X", []], ["Y", []]]],
              "leaf_species": {"x_1": "X", "x_2": "X", "y_1": "Y"},
              "syn": {"x_1": ["g1", "g2", "g3"], "x_2": ["g1", "g3", "g4"], "y_1": ["g1", "g2", "g3", "g4"]}}
    k = n_cli
    for algo in PLAIN_ALGOS + SUPER_ALGOS:
        for with_syn in (True, False):
            for omitted in (False, True):
                c = {"k": k, "obj": readme["obj"], "sp": readme["sp"], "omitted": omitted, "leaf_species": readme["leaf_species"],
                     "syn": readme["syn"] if with_syn else None, "algo": algo, "costs": {}, "orient": "horizontal", "mode": "inproc"}
                ccases.append(json.loads(json.dumps(c)))
                k += 1
    # a sample through a real process
    for j in rng.sample(range(n_cli), n_sub):
        c = json.loads(json.dumps(ccases[j]))
        c["mode"] = "subprocess"
        c["k"] = k
        k += 1
        ccases.append(c)

    seen = {"outcomes": {}, "solutions_all_gt1": 0, "max_solutions_all": 0, "objects_drawn": 0}
    ctx.dist["cli_observed"] = seen

    def impl_cli_counted(c):
        return impl_cli(c)

    def observe_cli(c, res):          # parent process (Batch.observe)
        oc = observed_outcome(res)
        seen["outcomes"][oc] = seen["outcomes"].get(oc, 0) + 1
        n = res["all"].get("truncated_from", len(res["all"]["stdout"].splitlines()))
        seen["solutions_all_gt1"] += n > 1
        seen["max_solutions_all"] = max(seen["max_solutions_all"], n)
        seen["objects_drawn"] += sum(1 for pol in ("any", "all") for b in res[pol]["back"] if b[1] is True)

    def nontrivial_cli(c, res):
        return observed_outcome(res) in ("run", "warn") and any(unnamed(a) for a in preorder(c["obj"]) + preorder(c["sp"]))

    by_algo = {}
    for c in ccases:
        key = c["algo"] + ("+syn" if c["syn"] is not None else "")
        by_algo[key] = by_algo.get(key, 0) + 1
    ctx.dist["cli"] = {
        "cases": len(ccases), "subprocess": sum(1 for c in ccases if c["mode"] == "subprocess"),
        "by_algorithm": by_algo,
        "mapping_omitted": sum(1 for c in ccases if c["omitted"]),
        "polytomies": sum(1 for c in ccases if not is_binary(c["obj"])),
        "no_given_ancestor_name": sum(1 for c in ccases if all(unnamed(a) or a in leaves(t) for t in (c["obj"], c["sp"]) for a in preorder(t))),
        "with_lookalike_given": sum(1 for c in ccases if any(re.fullmatch(r"[OS]\d+", a) for a in preorder(c["obj"]) + preorder(c["sp"]))),
        "with_cost_options": sum(1 for c in ccases if c["costs"]),
    }
    yield Batch(
        name="cli", header=HEADER, run="run_cli", eqb="cli_eqb",
        ty_in="string * bool * bool * bool * ntree string * ntree string", ty_out="cli_out",
        cases=ccases, impl=impl_cli_counted, observe=observe_cli, enc_in=enc_cli_in, enc_out=enc_cli_out,
        oracle=oracle_cli, nontrivial=nontrivial_cli, exhaustive=False, shard=200,
        describe=("`reconcile` under both policies on random documented-format inputs, in-process through the real argparse parser "
                  f"and {n_sub} of them as `python -m superrec2.cli`; every output object parsed back and given to `draw` (stub TeX measurer); "
                  "compared with the model: dispatch outcome over Gen/CliTable.v, names of both trees in pre-order, leaf mapping when left to the naming convention, "
                  "and 'all process-level clauses hold'"),
    )

    # ---- 4./5. the whole pipeline against Model/CliRun.v, then its evaluator glue against from_dict(...).cost() ----
    yield from pipeline_batches(ctx)


# ---------------------------------------------------------------------------
# cli_pipeline: `reconcile` end to end against the pipeline model Model/CliRun.v
# (read_input -> label_internal -> dispatch -> solver -> "Minimum cost" -> one dictionary per solution)

PIPE_FILES = ["Model/CliRun.v", "Proofs/CliRunProofs.v", "Proofs/C11EvalProofs.v"]     # the last one for output_events (batch cli_glue)

PIPE_HEADER = """From Coq Require Import String Ascii.
From SR Require Import Base.Ext Model.Entry Model.Recon Model.Label Model.Newick Model.Serial Model.CliRun.
Fixpoint list_eqb {A} (f : A -> A -> bool) (a b : list A) : bool :=
  match a, b with [], [] => true | x :: a', y :: b' => f x y && list_eqb f a' b' | _, _ => false end.
Definition pair_eqb {A B} (f : A -> A -> bool) (g : B -> B -> bool) (a b : A * B) : bool := f (fst a) (fst b) && g (snd a) (snd b).
(* the same items, in any order (JSON objects are unordered; the lists compared here are duplicate-free) *)
Definition perm_eqb {A} (f : A -> A -> bool) (a b : list A) : bool :=
  Nat.eqb (List.length a) (List.length b) && forallb (fun x => existsb (f x) b) a && forallb (fun y => existsb (fun x => f x y) a) b.
Definition strs_eqb := list_eqb String.eqb.
Definition sdict_eqb := perm_eqb (pair_eqb String.eqb String.eqb).
Definition ldict_eqb := perm_eqb (pair_eqb String.eqb strs_eqb).
Definition cdict_eqb := perm_eqb (pair_eqb String.eqb ext_eqb).
Definition dri_eqb (a b : drinput) : bool :=
  String.eqb (d_otree a) (d_otree b) && String.eqb (d_stree a) (d_stree b) && sdict_eqb (d_leafmap a) (d_leafmap b) && cdict_eqb (d_costs a) (d_costs b).
Definition di_eqb (a b : dinput) : bool := dri_eqb (d_base a) (d_base b) && opt_eqb ldict_eqb (d_leafsyn a) (d_leafsyn b).
Definition dro_eqb (a b : droutput) : bool := di_eqb (d_in a) (d_in b) && sdict_eqb (d_omap a) (d_omap b).
Definition dso_eqb (a b : dsoutput) : bool := dro_eqb (d_out a) (d_out b) && ldict_eqb (d_syns a) (d_syns b) && opt_eqb Bool.eqb (d_ordered a) (d_ordered b).
Definition obj_eqb (a b : out_obj) : bool :=
  match a, b with OutR x, OutR y => dro_eqb x y | OutS x, OutS y => dso_eqb x y | _, _ => false end.
(* the model's answer under ALL against what the tool did: same kind of ending, same printed minimum, same SET of objects *)
Definition all_eqb (m e : cli_result) : bool :=
  match m, e with
  | CliRejected, CliRejected | CliError, CliError | CliNoSolution, CliNoSolution | CliRaise, CliRaise => true
  | CliOk w1 c1 o1, CliOk w2 c2 o2 => Bool.eqb w1 w2 && ext_eqb c1 c2 && perm_eqb obj_eqb o1 o2
  | _, _ => false
  end.
(* under ANY the tool may keep another optimal solution than the model (iteration orders): same ending, same printed
   minimum, as many objects as the model writes (one), each of them among the model's objects under ALL *)
Definition any_eqb (m mall e : cli_result) : bool :=
  match m, e with
  | CliRejected, CliRejected | CliError, CliError | CliNoSolution, CliNoSolution | CliRaise, CliRaise => true
  | CliOk w1 c1 o1, CliOk w2 c2 o2 =>
      Bool.eqb w1 w2 && ext_eqb c1 c2 && Nat.eqb (List.length o1) (List.length o2) &&
      match mall with CliOk _ _ oa => forallb (fun y => existsb (fun x => obj_eqb x y) oa) o2 | _ => false end
  | _, _ => false
  end.
Definition pipe_in := (string * Recon.costs * ntree string * ntree string * option (dict string) * option (dict (list string)))%type.
Definition run_pipe (x : pipe_in) : cli_result * cli_result :=
  let '(key, c, o, s, lm, ls) := x in
  (cli_run (mkCli key RANY c o s lm ls), cli_run (mkCli key RALL c o s lm ls)).
Definition pipe_eqb (m e : cli_result * cli_result) : bool :=
  any_eqb (fst m) (snd m) (fst e) && all_eqb (snd m) (snd e).
"""


def gen_pipeline_case(rng, k, algo):
    """binary documented-format input, integer unit costs; DP solvers stay inside the coherent region
    spe + 2*sloss <= dup + 2*floss (DESIGN section 9, F-COHERENCE), lca/exh take any non-negative costs"""
    nsp = rng.choice([2, 2, 3, 3, 4])
    species = rng.sample(SPECIES_POOL, nsp)
    sp = random_binary(rng, species)
    nobj = rng.choice([2, 3, 3, 4, 4, 5]) if algo != "exh" else rng.choice([2, 3, 3, 4])
    omitted = rng.random() < 0.25
    leaf_species = {}
    for i in range(nobj):
        s = rng.choice(species)
        shown = s
        if omitted and rng.random() < 0.3:
            shown = rng.choice([s.lower(), s.upper()])
        leaf_species[f"{shown}_{i + 1}"] = s
    leaf_names = list(leaf_species)
    obj = random_binary(rng, leaf_names)
    rng.shuffle(leaf_names)                                  # dictionary order of the input file != leaf order
    leaf_species = {n: leaf_species[n] for n in leaf_names}
    mode_o = rng.choice(["unnamed", "unnamed", "partial", "partial", "named"])
    mode_s = rng.choice(["unnamed", "unnamed", "partial", "partial", "named"])
    name_ancestors(rng, obj, mode_o, OBJ_ANC_LOOKALIKE, OBJ_ANC_PLAIN, set(leaf_species))
    name_ancestors(rng, sp, mode_s, SP_ANC_LOOKALIKE, SP_ANC_PLAIN, set(species))
    has_syn = (algo in SUPER_ALGOS and rng.random() < 0.93) or (algo in PLAIN_ALGOS and rng.random() < 0.3)
    syn = None
    if has_syn:
        fams = rng.sample(["f", "g", "h", "k", "g2", "g10"], rng.choice([1, 2, 3, 3, 4]))
        order = list(fams)
        rng.shuffle(order)
        syn = {}
        for leaf in leaf_species:
            s = [f for f in order if rng.random() < 0.7] or [rng.choice(fams)]
            if rng.random() < 0.06:
                rng.shuffle(s)                               # conflicting gene orders: the ordered solvers find no root order
            syn[leaf] = s
    while True:
        cv = {"spe": rng.choice([0, 0, 1, 2]), "dup": rng.randint(0, 3), "hgt": rng.choice([0, 1, 1, 2, 3, "float('inf')"]),
              "floss": rng.randint(0, 3), "sloss": rng.randint(0, 2)}
        if algo in ("lca", "exh") or cv["spe"] + 2 * cv["sloss"] <= cv["dup"] + 2 * cv["floss"]:
            break
    if rng.random() < 0.08:
        cv["dup"] = rng.choice([1234567, 10000001])          # a total with more than six significant digits (stays coherent)
        return {"k": k, "obj": obj, "sp": sp, "omitted": omitted, "leaf_species": leaf_species, "syn": syn,
                "algo": algo, "costs": cv, "orient": rng.choice(["horizontal", "vertical"]), "mode": "inproc"}
    if rng.random() < 0.15:
        cv = {}
    elif rng.random() < 0.3:
        cv = {nm: v for nm, v in cv.items() if rng.random() < 0.6}
        full = _full_costs({"costs": {nm: (float("inf") if isinstance(v, str) else v) for nm, v in cv.items()}})
        if algo not in ("lca", "exh") and not full["spe"] + 2 * full["sloss"] <= full["dup"] + 2 * full["floss"]:
            cv = {}
    return {"k": k, "obj": obj, "sp": sp, "omitted": omitted, "leaf_species": leaf_species, "syn": syn,
            "algo": algo, "costs": cv, "orient": rng.choice(["horizontal", "vertical"]), "mode": "inproc"}


def malform(rng, c):
    """break a generated case in one of the ways a hand-written input file goes wrong (outside the property's domain:
    the comparison with the model still applies, the oracle does not)"""
    c = json.loads(json.dumps(c))
    kinds = ["unknown_species", "unmapped_leaf"]
    if c["syn"] is not None:
        kinds += ["leaf_without_synteny", "empty_synteny", "unknown_synteny_key"]
    kind = rng.choice(kinds)
    leaf = rng.choice(list(c["leaf_species"]))
    c["omitted"] = False
    if kind == "unknown_species":
        c["leaf_species"][leaf] = "Nowhere"
    elif kind == "unmapped_leaf":
        del c["leaf_species"][leaf]
    elif kind == "leaf_without_synteny":
        del c["syn"][leaf]
    elif kind == "empty_synteny":
        c["syn"][leaf] = []
    else:
        c["syn"]["ghost_9"] = ["f"]
    c["malformed"] = kind
    return c


def _enc_unit(v):
    if isinstance(v, str) or v == float("inf"):
        return "PInf"
    return f"(Fin {core.cZ(int(v))})"


def enc_pipe_in(c):
    from . import c11
    full = {"spe": 0, "dup": 1, "hgt": 1, "floss": 1, "sloss": 1}
    full.update(c["costs"])
    costs = ("{| c_spe := %s; c_dup := %s; c_hgt := %s; c_floss := %s; c_sloss := %s |}"
             % (core.cZ(full["spe"]), core.cZ(full["dup"]), _enc_unit(full["hgt"]), core.cZ(full["floss"]), core.cZ(full["sloss"])))
    lm = None if c["omitted"] else c11.enc_sdict(list(c["leaf_species"].items()))
    ls = None if c["syn"] is None else c11.enc_ldict(list(c["syn"].items()))
    return cpair(cstr(c["algo"]), costs, enc_tree(c["obj"]), enc_tree(c["sp"]), copt(lm), copt(ls))


def _enc_printed(text):
    """the text after 'Minimum cost:' as an [ext] literal (None: not an integer or inf)"""
    if text is None:
        return None
    try:
        x = float(text)
    except ValueError:
        return None
    if x == float("inf"):
        return "PInf"
    if x == float("-inf"):
        return "NInf"
    if x != x or x != int(x):
        return None
    return f"(Fin {core.cZ(int(x))})"


def _enc_obj(d):
    from . import c11
    kind = "SO" if "syntenies" in d else "RO"
    cd = c11.canon_dict(kind, d)
    dro = f"(mkDRO {c11.enc_dinput(cd['input'])} {c11.enc_sdict(cd['object_species'])})"
    if kind == "RO":
        return f"(OutR {dro})"
    return f"(OutS (mkDSO {dro} {c11.enc_ldict(cd['syntenies'])} {copt(None if cd['ordered'] is None else cbool(cd['ordered']))}))"


def enc_pipe_result(r):
    """what one run of the tool did, as a [cli_result]; anything the model has no word for is [CliOutOfModel],
    which the comparison never accepts"""
    status, out, err = r["status"], r["stdout"], r["stderr"]
    if "truncated_from" in r:
        return "CliOutOfModel"
    if status == 2 and out == "" and "invalid choice" in err:
        return "CliRejected"
    if status == 1 and out == "":
        if "Traceback" in err:
            return "CliRaise"
        if ERR_TEXT in err:
            return "CliError"
        return "CliNoSolution"
    if status == 0 and out.strip():
        cost = _enc_printed(printed_cost(err))
        if cost is None:
            return "CliOutOfModel"
        try:
            objs = [_enc_obj(json.loads(line)) for line in out.splitlines()]
        except (AssertionError, TypeError, KeyError, ValueError):
            return "CliOutOfModel"
        return f"(CliOk {cbool(WARN_TEXT in err)} {cost} {clist(objs)})"
    return "CliOutOfModel"


def enc_pipe_out(c, res):
    return cpair(enc_pipe_result(res["any"]), enc_pipe_result(res["all"]))


# ---------------------------------------------------------------------------
# cli_glue: the evaluator glue of Model/CliRun.v against the package's own from_dict(...).cost() / node_event.
# The whole-command theorems (C12_cli_objects_parse_back*) conclude `eval_result (own_num r) r = Some m` for the r with
# `parse_back d = Some r`; this batch evaluates exactly that expression on every line the IMPLEMENTATION wrote in the
# cli_pipeline batch and compares it with what the real classes compute on the same line.

GLUE_HEADER = PIPE_HEADER + """From SR Require Proofs.ReconProofs Proofs.C11EvalProofs.
Definition rev_eqb (a b : Recon.ev) : bool :=
  match a, b with
  | Recon.Spe, Recon.Spe | Recon.Dup, Recon.Dup | Recon.TrL, Recon.TrL | Recon.TrR, Recon.TrR | Recon.Inv, Recon.Inv => true
  | _, _ => false
  end.
(* outer None: from_dict raises; cost None: .cost() raises; events None: node_event raises (KeyError, not binary) *)
Definition glue_out := (option (option ext * option (list Recon.ev)) * bool)%type.
Definition routput_of (r : Serial.routput + Serial.soutput) : Serial.routput :=
  match r with inl x => x | inr x => Serial.s_out x end.
(* the last component: "the implementation's numbers are integers or infinities" (always so in the model) *)
Definition run_glue (d : out_obj) : glue_out :=
  (option_map (fun r => (eval_result (own_num r) r, C11EvalProofs.output_events (routput_of r))) (parse_back d), true).
Definition glue_eqb (a b : glue_out) : bool :=
  opt_eqb (pair_eqb (opt_eqb ext_eqb) (opt_eqb (list_eqb rev_eqb))) (fst a) (fst b) && Bool.eqb (snd a) (snd b).
"""

GLUE_EV = {"SPECIATION": "Recon.Spe", "DUPLICATION": "Recon.Dup", "TRANSFER_KEEP_LEFT": "Recon.TrL",
           "TRANSFER_KEEP_RIGHT": "Recon.TrR", "INVALID": "Recon.Inv"}


def impl_glue(c):
    """the real classes on one written line: from_dict, cost(), node_event of every internal node in pre-order"""
    M = _cli()["M"]
    try:
        d = json.loads(c["line"])
        cls = M.SuperReconciliationOutput if "syntenies" in d else M.ReconciliationOutput
        x = cls.from_dict(d)
    except Exception as e:  # noqa: BLE001 - part of the observation
        return {"parsed": False, "error": type(e).__name__}
    out = {"parsed": True}
    try:
        v = x.cost()
        out["cost_text"] = str(v)
        if isinstance(v, bool):
            out["cost"] = "odd:" + repr(v)
        elif isinstance(v, int):
            out["cost"] = v
        elif v == float("inf"):                     # a float, or the `infinity` package's object
            out["cost"] = "inf"
        elif v == float("-inf"):
            out["cost"] = "-inf"
        else:
            out["cost"] = "odd:" + repr(v)          # a float where integer unit costs were given, or nan
    except Exception as e:  # noqa: BLE001
        out["cost"] = "exc:" + type(e).__name__
        out["cost_text"] = out["cost"]
    try:
        evs = []
        rec, lca = x.object_species, x.input.species_lca
        for node in x.input.object_tree.traverse("preorder"):
            if node.is_leaf():
                continue
            e = x.node_event(node).name
            if e == "HORIZONTAL_TRANSFER":
                # the child that stays in the lineage, as _cost_rec decides it (dist_conserved)
                e = "TRANSFER_KEEP_LEFT" if lca.is_ancestor_of(rec[node], rec[node.children[0]]) else "TRANSFER_KEEP_RIGHT"
            evs.append(e)
        out["events"] = evs
    except Exception as e:  # noqa: BLE001
        out["events"] = "exc:" + type(e).__name__
    return out


def enc_glue_in(c):
    return _enc_obj(json.loads(c["line"]))


def enc_glue_out(c, r):
    if not r["parsed"]:
        return cpair("None", "true")
    expressible = True
    v = r["cost"]
    if isinstance(v, int) and not isinstance(v, bool):
        cost = f"(Some (Fin {core.cZ(v)}))"
    elif v == "inf":
        cost = "(Some PInf)"
    elif v == "-inf":
        cost = "(Some NInf)"
    elif isinstance(v, str) and v.startswith("exc:"):
        cost = "None"
    else:
        cost, expressible = "None", False
    evs = r["events"]
    if isinstance(evs, list) and all(e in GLUE_EV for e in evs):
        events = "(Some " + clist(GLUE_EV[e] for e in evs) + ")"
    elif isinstance(evs, str):
        events = "None"
    else:
        events, expressible = "None", False
    return cpair(f"(Some ({cost}, {events}))", cbool(expressible))


def oracle_glue(c, r):
    """property text: each written object parses back to a solution whose cost is the printed minimum cost"""
    if not r["parsed"]:
        return False, f"the written object does not parse back ({r['error']}): {c['line'][:200]}"
    if isinstance(r["cost"], str) and r["cost"].startswith("exc:"):
        return False, f"cost() of the parsed-back object raises {r['cost'][4:]}"
    if not same_cost(r["cost_text"], c["printed"]):
        return False, (f"{c['algo']} --solutions {c['policy']}: the parsed-back object costs {r['cost_text']} "
                       f"but the printed minimum cost is {c['printed']}")
    return True, "the parsed-back object's cost is the printed minimum cost"


def pipeline_batches(ctx):
    rng = ctx.rng
    quick = ctx.quick()
    # Model/CliRun.v and Proofs/CliRunProofs.v are built by pre_build; when they no longer build (e.g. over a regenerated
    # dispatch table) Properties/C12.v fails too and main.py runs every batch in oracle-only mode
    per_algo = 45 if quick else 500
    pcases = []
    k = 0
    for algo in PLAIN_ALGOS + SUPER_ALGOS:
        for _ in range(per_algo):
            pcases.append(gen_pipeline_case(rng, k, algo))
            k += 1
    # the README example with every algorithm, with and without syntenies
    readme = {"obj": ["", [["", [["x_1", []], ["x_2", []]]], ["y_1", []]]], "sp": ["", [["X", []], ["Y", []]]],
              "leaf_species": {"x_1": "X", "x_2": "X", "y_1": "Y"},
              "syn": {"x_1": ["g1", "g2", "g3"], "x_2": ["g1", "g3", "g4"], "y_1": ["g1", "g2", "g3", "g4"]}}
    for algo in PLAIN_ALGOS + SUPER_ALGOS + ("spfs",):
        for with_syn in (True, False):
            pcases.append(json.loads(json.dumps(
                {"k": k, "obj": readme["obj"], "sp": readme["sp"], "omitted": not with_syn, "leaf_species": readme["leaf_species"],
                 "syn": readme["syn"] if with_syn else None, "algo": algo, "costs": {}, "orient": "horizontal", "mode": "inproc"})))
            k += 1

    # malformed files: the exception paths of the model
    for algo in PLAIN_ALGOS + SUPER_ALGOS:
        for _ in range(4 if quick else 40):
            c = malform(rng, gen_pipeline_case(rng, k, algo))
            pcases.append(c)
            k += 1

    seen = {"endings": {}, "objects_compared": 0, "max_objects_all": 0}
    ctx.dist["cli_pipeline_observed"] = seen
    written = {}       # (canonical line, printed minimum) -> case of the cli_glue batch

    def enc_out_counted(c, res):          # runs in the parent process: the observations survive
        lit = enc_pipe_out(c, res)
        for pol in ("any", "all"):
            e = enc_pipe_result(res[pol]).split(" ")[0].lstrip("(")
            seen["endings"][e] = seen["endings"].get(e, 0) + 1
            if e == "CliOk":                  # every line the tool wrote goes to the cli_glue batch below
                for line in res[pol]["stdout"].splitlines():
                    key = (canon(line), printed_cost(res[pol]["stderr"]))
                    if key not in written:
                        written[key] = {"k": len(written), "from_case": c["k"], "algo": c["algo"], "policy": pol,
                                        "line": line, "printed": key[1]}
        n = len(res["all"]["stdout"].splitlines())
        seen["objects_compared"] += n + len(res["any"]["stdout"].splitlines())
        seen["max_objects_all"] = max(seen["max_objects_all"], n)
        return lit

    def oracle_pipe(c, res):
        if not (is_binary(c["obj"]) and is_binary(c["sp"])):
            return True, "polytomy: outside the pipeline model"
        if c.get("malformed"):
            return True, f"malformed input file ({c['malformed']}): outside the property's domain"
        return oracle_cli(c, res)

    ctx.dist["cli_pipeline"] = {
        "cases": len(pcases),
        "by_algorithm": {a: sum(1 for c in pcases if c["algo"] == a) for a in sorted({c["algo"] for c in pcases})},
        "with_syntenies": sum(1 for c in pcases if c["syn"] is not None),
        "mapping_omitted": sum(1 for c in pcases if c["omitted"]),
        "with_unnamed_ancestor": sum(1 for c in pcases if any(unnamed(a) for a in preorder(c["obj"]) + preorder(c["sp"]))),
        "with_cost_options": sum(1 for c in pcases if c["costs"]),
        "infinite_transfer_cost": sum(1 for c in pcases if isinstance(c["costs"].get("hgt"), str)),
        "malformed": sum(1 for c in pcases if c.get("malformed")),
    }
    yield Batch(
        name="cli_pipeline", header=PIPE_HEADER, run="run_pipe", eqb="pipe_eqb",
        ty_in="pipe_in", ty_out="cli_result * cli_result",
        cases=pcases, impl=impl_cli, enc_in=enc_pipe_in, enc_out=enc_out_counted,
        oracle=oracle_pipe,
        nontrivial=lambda c, res: res["all"]["status"] == 0 and bool(res["all"]["stdout"].strip()),
        exhaustive=False, shard=40,
        describe=("`reconcile` in-process under both policies on random binary documented-format inputs (2-5 object leaves on 2-4 species, unnamed / partially named / "
                  "look-alike ancestors, leaf mapping given or by naming convention, 1-4 gene families, integer unit costs, transfer cost possibly infinite; the DP solvers "
                  "inside spe + 2 sloss <= dup + 2 floss), all seven algorithms, against Model/CliRun.v: same ending (status 0 / refused / no solution / exception), "
                  "same printed minimum cost, under ALL the same SET of output dictionaries (items of every dictionary compared, Newick strings and syntenies literally), "
                  "under ANY one dictionary that belongs to the model's ALL set"),
    )

    # ---- 5. the evaluator glue of the whole-command theorems against from_dict(...).cost() / node_event -------------
    # (the generator resumes here after main.py has run the cli_pipeline batch: `written` holds every distinct line of
    # the runs that ended with status 0; under --replay the stored case replaces the empty list)
    gcases = list(written.values())
    cap = 1200 if quick else 20000
    if len(gcases) > cap:
        gcases = [gcases[i] for i in sorted(rng.sample(range(len(gcases)), cap))]
    gseen = {"costs": {"finite": 0, "infinite": 0, "raises_or_other": 0}, "events": {}, "lines_with_transfer": 0}
    ctx.dist["cli_glue_observed"] = gseen

    def observe_glue(c, r):               # parent process
        v = r.get("cost")
        kind = "finite" if isinstance(v, int) else "infinite" if v in ("inf", "-inf") else "raises_or_other"
        gseen["costs"][kind] += 1
        evs = r.get("events")
        if isinstance(evs, list):
            for e in evs:
                gseen["events"][e] = gseen["events"].get(e, 0) + 1
            gseen["lines_with_transfer"] += any(e.startswith("TRANSFER") for e in evs)

    ctx.dist["cli_glue"] = {
        "cases": len(gcases),
        "distinct_lines_written_in_cli_pipeline": len(written),
        "super_reconciliation_objects": sum(1 for c in gcases if '"syntenies"' in c["line"]),
        "unordered_objects": sum(1 for c in gcases if json.loads(c["line"]).get("ordered") is False),
        "by_algorithm": {a: sum(1 for c in gcases if c["algo"] == a) for a in sorted({c["algo"] for c in gcases})},
        "by_policy": {pol: sum(1 for c in gcases if c["policy"] == pol) for pol in ("any", "all")},
    }
    yield Batch(
        name="cli_glue", header=GLUE_HEADER, run="run_glue", eqb="glue_eqb",
        ty_in="out_obj", ty_out="glue_out",
        cases=gcases, impl=impl_glue, observe=observe_glue, enc_in=enc_glue_in, enc_out=enc_glue_out,
        oracle=oracle_glue,
        nontrivial=lambda c, r: bool(r.get("parsed")) and isinstance(r.get("events"), list) and len(r["events"]) >= 2,
        exhaustive=False, shard=150,
        describe=("every distinct line written by the real `reconcile` in the cli_pipeline batch (status-0 runs, both policies, integer unit costs, transfer cost "
                  "possibly infinite): Model/CliRun.v's `option_map (fun r => (eval_result (own_num r) r, output_events (routput_of r))) (parse_back d)` on the "
                  "line's dictionary d against the package's `from_dict(json.loads(line))` followed by `.cost()` (exact: integer or infinity) and `node_event` of "
                  "every internal object node in pre-order (a transfer with the side `_cost_rec` keeps); this is the expression the theorems "
                  "C12_cli_objects_parse_back* equate with the printed minimum, and the oracle checks cost() == printed minimum on the implementation alone"),
    )


# ---------------------------------------------------------------------------
# known finding F-COHERENCE seen through the command line: outside the coherent region a DP solver may
# return a non-optimal solution, differently under the two policies, so `all` is not a superset of `any`

DP_ALGOS = ("thl", "base_spfs", "ext_spfs", "base_uspfs", "superdtl")


def _full_costs(c):
    d = {"spe": 0, "dup": 1, "hgt": 1, "floss": 1, "sloss": 1}
    d.update(c.get("costs") or {})
    # cost options are Python expressions on the command line ("10**7+1", "1/3", "float('inf')"): as numbers here
    return {k: (eval(v, {"__builtins__": {"float": float}}) if isinstance(v, str) else v) for k, v in d.items()}  # noqa: S307 - literals written by gen_cli_case


def known_signature(f, kf):
    from .. import recon as R
    if kf["id"] != "F-COHERENCE" or f.batch != "cli" or not isinstance(f.case, dict):
        return False
    algo = f.case.get("algo")
    if algo not in DP_ALGOS:
        return False
    if R.coherent(_full_costs(f.case), plain=(algo == "thl")):
        return False
    return ("the two policies print different minimum costs" in (f.detail or "")
            or "--solutions all does not contain" in (f.detail or ""))


def replay_known(ctx, kf):
    w = kf.get("witness_cli")
    if kf["id"] != "F-COHERENCE" or w is None:
        return False, "no command-line witness recorded"
    res = impl_cli(w)
    ok, why = oracle_cli(w, res)
    return (ok is False), f"reconcile {w['algo']} with costs {_full_costs(w)}: {why}"
