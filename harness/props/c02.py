"""C02 — ordered super-reconciliation returns a minimum-cost labelled reconciliation."""
from __future__ import annotations

import itertools
import json

from ..core import Batch, cN, cZ, cbool, clist, copt, cpair
from .. import recon as R
from .. import labelled as LB

ID = "C02"
LEVEL = "proof"
PROP_FILE = "Properties/C02.v"
PROOF_FILES = ["Proofs/ReviewCModels.v", "Proofs/ReviewCSpfsOpt.v", "Proofs/ReviewCSpfsAny.v", "Gen/SpfsGen.v", "Proofs/SpfsGenProofs.v", "Gen/ToposortGen.v", "Proofs/ToposortGenProofs.v", "Gen/EvalGen.v", "Proofs/EvalGenProofs.v", "Gen/TableGen.v", "Proofs/TableGenProofs.v", "Gen/EntryGen.v", "Proofs/EntryGenProofs.v", "Proofs/AllAnyProofs.v", "Proofs/SpfsFinal.v", "Proofs/SpfsProofs.v", "Proofs/ThlProofs.v", "Model/Spfs.v", "Model/Thl.v", "Model/Recon.v", "Model/Entry.v", "Model/Subseq.v", "Model/Toposort.v",
               "Proofs/EntryProofs.v", "Proofs/SubseqProofs.v", "Proofs/LabelCostProofs.v", "Proofs/ToposortProofs.v"]
TRUSTED = ["translator translator/pyfun.py (seventh extension) + the type tables in translator/spfs_gen.py: compute/super_reconciliation.py (_make_prec_graph, _compute_spfs_entry, _compute_spfs_table, _decode_spfs_table, _spfs, sreconcile_base_spfs, sreconcile_extended_spfs; binary inputs: binarize() = the input itself, label_internal() a no-op) and TableProxy.keys/__iter__ are translated into Gen/SpfsGen.v on every run and proved equal to Model/Spfs.v (object nodes = identifiers, species = root paths, LCA structure = the path operations, dictionary/set iteration orders = parameters the theorems quantify over)", "model Model/Spfs.v of _compute_spfs_entry/_compute_spfs_table/_decode_spfs_table/_spfs (after fix D5), on the Entry (C16), mask (C18), toposort (C19) and evaluator (C06) models"]
ASSUMES = ["binary trees", "cost vectors with spe + 2*sloss <= dup + 2*floss for the optimality clauses (F-COHERENCE)"]
RULE = ("inputs = (species shape, object shape, leaf species, ordered leaf syntenies over <=3-4 families incl. mutually inconsistent orders, coherent cost vector incl. sloss=0, optional prescribed root synteny); "
        "non-trivial = at least two root orderings or an optimal solution with a segmental loss / duplication / transfer")

HEADER = R.RECON_HEADER + """From SR Require Import Model.Entry Model.Subseq Model.Thl Model.Spfs.
Definition sols (e : option (entry ltree)) : option (list ltree) := option_map (fun x => tags x) e.
Definition tvals (St : stree) (n : nat) (t : stt) : list (list ext) :=
  (fix go (t : stt) : list (list ext) :=
     flat_map (fun s => map (fun m => val (sread t (s, m))) (all_masks n)) (snodes St) ::
     match t with STLeaf _ _ => [] | STNode _ a b => go a ++ go b end) t.
Definition orders_of (Ot : otree) (pres : option (list fam)) : option (list (list fam)) :=
  match pres with Some r => Some [r] | None => root_orders Ot end.
Definition run_spfs (x : stree * otree * costs * option (list fam) * list (list fam)) :=
  let '(St, Ot, c, pres, given_orders) := x in
  match orders_of Ot pres with
  | None => None
  | Some ords =>
      Some (ords,
            sols (spfs St c RALL true ords Ot), sols (spfs St c RALL false ords Ot),
            map (fun ord => tvals St (List.length ord) (spfs_table St c RALL true ord true Ot)) given_orders)
  end.
Definition out_t := (list (list fam) * option (list ltree) * option (list ltree) * list (list (list ext)))%type.
Definition imp_t := (list (list fam) * (option (list ltree) * list ltree) * (option (list ltree) * list ltree) * list (list (list ext)))%type.
Definition any_ok (all : option (list ltree)) (any : list ltree) : bool :=
  match all, any with
  | Some [], [] => true
  | Some l, [r] => existsb (ltree_eqb r) l
  | _, _ => false
  end.
Definition any_weak (all : option (list ltree)) (any : list ltree) : bool :=
  match all, any with
  | Some [], [] => true
  | Some (_ :: _), [_] => true
  | _, _ => false
  end.
Definition spfs_eqb_weak (a : option out_t) (b : option imp_t) : bool :=
  match a, b with
  | Some (o1, e1, b1, t1), Some (o2, (e2, ea), (b2, ba), t2) =>
      set_eqb (list_eqb N.eqb) o1 o2
      && opt_eqb (set_eqb ltree_eqb) e1 e2 && opt_eqb (set_eqb ltree_eqb) b1 b2
      && any_weak e1 ea && any_weak b1 ba
      && list_eqb (list_eqb (list_eqb ext_eqb)) t1 t2
  | None, None => true
  | _, _ => false
  end.
(* a = model, b = implementation *)
Definition spfs_eqb (a : option out_t) (b : option imp_t) : bool :=
  match a, b with
  | Some (o1, e1, b1, t1), Some (o2, (e2, ea), (b2, ba), t2) =>
      set_eqb (list_eqb N.eqb) o1 o2
      && opt_eqb (set_eqb ltree_eqb) e1 e2 && opt_eqb (set_eqb ltree_eqb) b1 b2
      && any_ok e1 ea && any_ok b1 ba
      && list_eqb (list_eqb (list_eqb ext_eqb)) t1 t2
  | None, None => true
  | _, _ => false
  end.
"""

GRID = [
    {"spe": 0, "dup": 1, "hgt": 1, "floss": 1, "sloss": 1},
    {"spe": 0, "dup": 1, "hgt": 1, "floss": 1, "sloss": 0},
    {"spe": 0, "dup": 1, "hgt": "inf", "floss": 1, "sloss": 1},
    {"spe": 0, "dup": 2, "hgt": 1, "floss": 0, "sloss": 1},
    {"spe": 0, "dup": 1, "hgt": 3, "floss": 2, "sloss": 2},
    {"spe": 1, "dup": 1, "hgt": 0, "floss": 1, "sloss": 1},
    {"spe": 2, "dup": 0, "hgt": 2, "floss": 1, "sloss": 0},
]


def rand_case(rng, max_o, max_s, max_f, p_incons=0.15, p_pres=0.15):
    S = R.rand_shape(rng, rng.randint(1, max_s))
    nf = rng.randint(1, max_f)
    fams = rng.sample(range(1, 7), nf)
    O = R.rand_otree(rng, rng.randint(2, max_o), R.shape_leaves(S), fams=fams)
    if rng.random() < p_incons:
        # reverse one leaf synteny: possibly inconsistent orders
        leaves = [l for _, l in R.otree_leaves(O)]
        l = rng.choice(leaves)
        l["syn"] = list(reversed(l["syn"]))
    pres = None
    if rng.random() < p_pres:
        orders = LB.compatible_orders(O)
        if orders:
            pres = list(rng.choice(orders))
            if rng.random() < 0.4:
                # the prescribed root may hold families no leaf carries (a proper supersequence of every leaf synteny)
                extra_f = [f for f in range(1, 8) if f not in pres]
                for f in rng.sample(extra_f, min(len(extra_f), rng.randint(1, 2))):
                    pres.insert(rng.randrange(len(pres) + 1), f)
    c = dict(rng.choice(GRID)) if rng.random() < 0.6 else R.rand_costs(rng)
    case = {"S": S, "O": O, "costs": c, "pres": pres}
    if rng.random() < 0.4:    # family names of different lengths / cases (the model knows families as numbers only)
        case["fnames"] = rng.choice([1, 2])
    if rng.random() < 0.08 and len(R.otree_leaves(O)) >= 2:
        # different leaf syntenies whose names concatenate to the same string: families 1,2,3(,4) are called
        # "a","b","ab"("c") in scheme 1, so [1,2,...] and [3,...] both read "ab..."
        order = [1, 2, 3] + ([4] if rng.random() < 0.6 else [])
        if rng.random() < 0.5:
            order.insert(rng.randrange(len(order) + 1), 5)
        leaves = [l for _, l in R.otree_leaves(O)]
        rng.shuffle(leaves)
        tail = [f for f in order if f >= 4 and rng.random() < 0.7]
        for i, l in enumerate(leaves):
            if i == 0:
                keep = {1, 2} | set(tail)
            elif i == 1:
                keep = {3} | set(tail)
            else:
                keep = {f for f in order if rng.random() < 0.6} or {order[0]}
            l["syn"] = [f for f in order if f in keep]
        case["fnames"] = 1
        case["pres"] = None
    if rng.random() < 0.15:   # an LCA structure was built on the same species tree while children were in another order
        case["prime_lca"] = True
    if rng.random() < 0.3:    # trees decorated with branch lengths / supports
        case["dist"] = rng.randrange(1 << 30)
    if rng.random() < 0.25:   # same input object solved before under other costs (see recon.primed)
        case["prime"] = R.rand_costs(rng, coherent_only=False) if rng.random() < 0.6 else "topology"
    return case


def _solvers():
    from superrec2.compute import super_reconciliation as M
    from superrec2.utils.dynamic_programming import RetentionPolicy
    return M, RetentionPolicy


def _input(case):
    M, RP = _solvers()
    B = R.primed(case, lambda i: M.sreconcile_extended_spfs(i, RP.ALL), labelled=True)
    if case.get("pres") is not None:
        B.input.leaf_syntenies[B.otree] = [R.fam_name(f, B.fam_scheme) for f in case["pres"]]
    return B


def impl(case):
    import contextlib, io
    with contextlib.redirect_stderr(io.StringIO()):   # "Warning: Family cycle detected" goes to stderr
        return _impl(case)


def _impl(case):
    M, RP = _solvers()
    B = _input(case)
    out = {}
    try:
        if case.get("pres") is not None:
            orders = [list(case["pres"])]
        else:
            from superrec2.utils.toposort import toposort_all
            orders = [[R.fam_id(f, B.fam_scheme) for f in o] for o in toposort_all(M._make_prec_graph(B.input.leaf_syntenies))]
    except Exception as e:
        return {"error": "orders:" + type(e).__name__}
    out["orders"] = sorted(orders)
    for name, fn in (("ext", M.sreconcile_extended_spfs), ("base", M.sreconcile_base_spfs)):
        try:
            out[name] = sorted((B.canon(o) for o in fn(B.input, RP.ALL)), key=json.dumps)
            out[name + "_any"] = [B.canon(o) for o in fn(B.input, RP.ANY)]
        except Exception as e:
            out[name] = None
            out[name + "_any"] = []
            out[name + "_error"] = type(e).__name__
    # secondary: table values of the extended variant for each ordering
    out["tables"] = None
    try:
        from superrec2.utils.subsequences import subseq_complete
        tables = []
        snodes = [B.snode[p] for p in R.shape_paths(case["S"])]
        for ordering in out["orders"]:
            t = M._compute_spfs_table(
                B.input, [R.fam_name(f, B.fam_scheme) for f in ordering],
                lambda species, _: species.traverse("postorder"),
                lambda ordr, obj: ((subseq_complete(ordr),) if obj == B.input.object_tree else range(2 ** len(ordr))),
                RP.ALL)
            tab = []
            for n in B.otree.traverse("preorder"):
                tab.append([R.ext_of(t[n][s][m].value()) for s in snodes for m in range(2 ** len(ordering))])
            tables.append(tab)
        out["tables"] = tables
    except Exception:
        out["tables"] = None
    return out


def enc_ltrees(l):
    return clist(R.enc_ltree(x) for x in l)


def enc_out(case, r):
    if "error" in r:
        return "None"
    if r["tables"] is None:
        raise RuntimeError("_compute_spfs_table unavailable with the known signature")
    return copt(cpair(
        clist(clist(cN(f) for f in o) for o in r["orders"]),
        cpair(copt(None if r["ext"] is None else enc_ltrees(r["ext"])), enc_ltrees(r["ext_any"])),
        cpair(copt(None if r["base"] is None else enc_ltrees(r["base"])), enc_ltrees(r["base_any"])),
        clist(clist(clist(R.enc_ext(v) for v in row) for row in tab) for tab in r["tables"])))


def enc_in(case):
    pres = case.get("pres")
    orders = sorted(LB.compatible_orders(case["O"])) if pres is None else [list(pres)]
    return cpair(R.enc_stree(case["S"]), R.enc_otree(case["O"]), R.enc_costs(case["costs"]),
                 copt(None if pres is None else clist(cN(f) for f in pres)),
                 clist(clist(cN(f) for f in o) for o in orders))


def oracle(case, r):
    """property text, by brute force over orders x mappings x labellings"""
    if "error" in r:
        if all(l["syn"] for _, l in R.otree_leaves(case["O"])):
            return False, f"the root orders could not be computed on a well-formed input ({r['error']})"
        return True, "leaf syntenies outside the solver's domain (empty synteny)"
    for k in ("ext", "base"):
        if r.get(k) is None:
            return False, f"{k} solver raised {r.get(k + '_error')}"
    S, O, c = case["S"], case["O"], case["costs"]
    orders = LB.compatible_orders(O) if case.get("pres") is None else [list(case["pres"])]
    for name, lca_only in (("ext", False), ("base", True)):
        got = r[name]
        if not orders:
            if got:
                return False, f"{name}: no root order is compatible with all leaves, yet {len(got)} solutions were returned"
            continue
        for sol in got:
            ok, why = LB.valid_ordered(S, O, sol, pres=case.get("pres"))
            if not ok:
                return False, f"{name}: invalid solution returned: {why}"
        m, opt = LB.best_ordered(S, O, c, orders, lca_only=lca_only)
        if m is None:
            if got:
                return False, f"{name}: solutions returned although none exists"
            continue
        costs = {LB.cost_labelled(S, sol, c, True) for sol in got}
        if costs != {m}:
            return False, f"{name}: returned costs {sorted(costs)}, the minimum is {m}"
        if {json.dumps(x) for x in got} != opt:
            return False, f"{name}: 'all' returned {len(got)} solutions, the optimal set has {len(opt)}"
        anyr = r[name + "_any"]
        if len(anyr) != 1 or json.dumps(anyr[0]) not in opt:
            return False, f"{name}: 'any' must return exactly one optimal solution"
    return True, "minimum cost, exact optimal set, valid solutions"


def nontrivial(case, r):
    return "error" not in r and bool(r.get("ext")) and (len(r["orders"]) >= 2 or len(R.otree_leaves(case["O"])) >= 3)


def make_batch(name, cases, describe, shard=60):
    return Batch(
        name=name, header=HEADER, run="run_spfs", eqb="spfs_eqb",
        ty_in="stree * otree * costs * option (list fam) * list (list fam)", ty_out="option imp_t",
        cases=cases, impl=impl, enc_in=enc_in, enc_out=enc_out, oracle=oracle, nontrivial=nontrivial,
        exhaustive=False, shard=shard, describe=describe)


def gen(ctx):
    rng = ctx.rng
    quick = ctx.quick()
    cases = []
    # the D5 witness first (corpus)
    cases.append({**R.case_from_names({"object": "((a,b),c)", "species": "((A,B),C)", "leafmap": {"a": "A", "b": "B", "c": "C"},
                                       "syntenies": {"a": ["x", "y"], "b": ["y", "z"], "c": ["x", "z"]},
                                       "costs": {"spe": 0, "dup": 1, "hgt": 1, "floss": 1, "sloss": 0}}), "pres": None})
    for _ in range(900 if quick else 6000):
        cases.append(rand_case(rng, 4 if quick else 5, 3 if quick else 4, 3))
    for _ in range(100 if quick else 800):
        cases.append(rand_case(rng, 3, 3, 4))
    return cases


def batches(ctx):
    cases = gen(ctx)
    ctx.dist["spfs"] = {"cases": len(cases), "prescribed_root": sum(1 for c in cases if c["pres"] is not None),
                        "sloss0": sum(1 for c in cases if c["costs"]["sloss"] == 0),
                        "no_compatible_order": sum(1 for c in cases if c["pres"] is None and not LB.compatible_orders(c["O"]))}
    yield make_batch("spfs", cases,
                     "random inputs up to 4-5 object leaves, 3-4 species leaves, 3-4 families (also inconsistent orders, prescribed roots, sloss=0); compared: root orderings, "
                     "extended and base solvers under ALL (sets) and ANY (membership), every table value of the extended table for every ordering")


def extra(ctx):
    """independent sample: the implementation's results against the brute-force specification
    (a test supporting the model, not a proof)"""
    rng = ctx.rng
    n = 25 if ctx.quick() else 250
    bad = 0
    for _ in range(n):
        case = rand_case(rng, 4, 3, 3)
        r = impl(case)
        ok, why = oracle(case, r)
        ctx.evaluations += 1
        if not ok:
            from ..core import Finding
            ctx.findings.append(Finding("spec_sample", case, r, "(specification oracle)", False, why))
            bad += 1
    ctx.notes.append(f"specification sample: {n} random inputs checked against the brute-force optimum, {bad} failures")


TECHNIQUE = ("Coq proof: refinement of the faithful ordered table (five aggregators per child, six combinations, masks) to a clean recurrence, optimiser charge = evaluator charge "
             "inside the coherent region (runs_inner_bounds), lower bound + attainment + decode soundness/completeness; root orders = compatible orders through C19; "
             "model tied to the code twice: the solver source is translated into Gen/SpfsGen.v on every run and proved equal to the model (SpfsGenProofs.v: precedence graph and root orders, one cell, the whole table, decoder, both entry points), and by table-level correspondence")
OPEN_GOALS: list = []
LEVEL_TEXT = ("Machine-checked for all binary inputs with non-empty leaf syntenies and cost vectors with spe + 2*sloss <= dup + 2*floss, 0 <= floss, 0 <= sloss, transfer cost finite or +inf: "
              "sreconcile_extended_spfs(ALL) returns exactly the minimum-cost valid ordered solutions over the compatible root orders (or the prescribed one), all species mappings and all labellings; "
              "sreconcile_base_spfs the minimum among solutions on the LCA mapping; ANY one of them; the result is empty exactly when no root order is compatible; the solver never fails. "
              "The model is compared with the code on root orderings, every table value, ALL sets and ANY members; a brute-force specification sample runs on every check. The solver source is also translated into Gallina on every run (Gen/SpfsGen.v) and proved equal to the model; composed with the optimality theorems: under the premises listed in DESIGN section 8 the GENERATED sreconcile_extended_spfs / sreconcile_base_spfs under ALL return exactly the minimum-cost valid ordered solutions over the compatible root orders, no solution exactly when no order is compatible (C02_c02_gen_extended_optimum, _base_), and under ANY one of them (C02_gen_sreconcile_*_spfs_any).")
LEVEL_NOTE = ("Trusted: Coq kernel; the translator (pyfun.py + spfs_gen.py) that regenerates Gen/SpfsGen.v from the source; hand-written model (proved equal to the generated functions, and correspondence = differential testing); C16/C18/C19/C06 layers are themselves theorems. No axioms. "
              "Theorems are about the code after fix D5. Known finding F-COHERENCE outside the region (witness replayed).")


def pre_build(ctx):
    from translator import spfs_gen
    from .. import core
    changed = spfs_gen.regenerate(core.REPO)
    ctx.notes.append("Gen/SpfsGen.v " + ("regenerated from compute/super_reconciliation.py (content changed)" if changed else "regenerated: unchanged"))


def known_signature(f, kf):
    return kf["id"] == "F-COHERENCE" and not R.coherent(f.case["costs"]) and R.coherence_signature(f)


def replay_known(ctx, kf):
    w = kf.get("witness_ordered")
    if kf["id"] == "F-COHERENCE":
        if w is None:
            return False, "no ordered witness recorded"
        r = impl(w)
        m, _ = LB.best_ordered(w["S"], w["O"], w["costs"], LB.compatible_orders(w["O"]))
        got = {LB.cost_labelled(w["S"], s, w["costs"], True) for s in (r.get("ext") or [])}
        return (got != {m}), f"sreconcile_extended_spfs returns cost {sorted(got)}, the minimum is {m} (costs outside spe + 2*sloss <= dup + 2*floss)"
    w = {**R.case_from_names(kf["witness"]), "pres": None}
    r = impl(w)
    ok, why = oracle(w, r)
    return (not ok), why


def search(ctx):
    """failing-input search: fresh, larger random inputs judged by the specification oracle alone"""
    import time
    from ..core import Finding
    rng = ctx.rng
    t0 = time.time()
    budget = 150 if ctx.quick() else 900
    n = 0
    while time.time() - t0 < budget:
        case = rand_case(rng, 5, 3, 3)
        r = impl(case)
        ok, why = oracle(case, r)
        n += 1
        ctx.evaluations += 1
        if ok is False:
            ctx.notes.append(f"failing-input search: violation found after {n} fresh inputs")
            return Finding("search", case, r, "(specification oracle)", False, why)
    ctx.notes.append(f"failing-input search: {n} fresh inputs, none violates the property")
    return None


def replay_case(payload):
    """search / spec_sample findings: the implementation's answer judged by the specification oracle"""
    case = payload["case"]
    r = impl(case)
    ok, why = oracle(case, r)
    return ok, why, r
