"""C10 — the algorithms agree with each other where their models coincide."""
from __future__ import annotations

import contextlib
import io
import itertools
import json

from ..core import Batch, Finding, cN, cZ, cbool, clist, copt, cpair
from .. import recon as R
from .. import labelled as LB
from . import c02, c03

ID = "C10"
LEVEL = "proof"
PROP_FILE = "Properties/C10.v"
PROOF_FILES = ["Proofs/CrossProofs.v", "Proofs/SpfsFinal.v", "Proofs/UspfsFinal.v", "Proofs/MetaProofs.v", "Proofs/ThlFinal.v", "Proofs/ThlProofs.v", "Proofs/LcaProofs.v", "Proofs/DpProofs.v", "Proofs/ReconProofs.v",
               "Model/Thl.v", "Model/Spfs.v", "Model/Uspfs.v", "Model/LcaRec.v", "Model/Recon.v"]
TRUSTED = ["models of the seven algorithms (Model/LcaRec.v, Thl.v, Spfs.v, Uspfs.v) and of the evaluator"]
ASSUMES = ["binary trees", "coherent cost vectors"]
RULE = ("random binary inputs with syntenies (up to 5 object leaves for the model comparison, up to 10 object leaves / 8 species / 4 families for the relations on the implementation), coherent costs; "
        "single-family inputs form a separate stream; non-trivial = the seven minimum costs are not all equal")
OPEN_GOALS: list = []
TECHNIQUE = ("Coq proofs on the specification optima transferred to the solver models through their exactness theorems: minimum over a superset (extended <= base), "
             "order-forgetting map from ordered to unordered solutions (unordered <= ordered), all-[f] labelling (single-family collapse), C01 + C07 (DTL vs LCA)")
LEVEL_TEXT = ("Machine-checked inside the coherent region for all binary inputs: every solution of an extended solver costs at most every solution of its base variant; every solution of the unordered solver "
              "costs at most every solution of the ordered one (same variant); every reconciliation returned by reconcile_thl costs at most the LCA reconciliation and exactly as much when transfers are forbidden; "
              "when every leaf carries the same single family the ordered, unordered and plain DTL optima coincide and both base variants equal the LCA reconciliation cost. "
              "The seven minimum costs computed by the Coq models are compared with the implementation's on every case and the relations are evaluated on the implementation's costs on inputs up to 10 object leaves.")
LEVEL_NOTE = "Trusted: Coq kernel, hand-written models of the seven algorithms, correspondence (differential testing). No axioms."

HEADER = R.RECON_HEADER + """From SR Require Import Model.Entry Model.LcaRec Model.Thl Model.Spfs Model.Uspfs.
Definition mincost {T} (e : option (entry T)) : option ext :=
  match e with Some x => match tags x with [] => None | _ => Some (val x) end | None => None end.
Definition run_seven (x : stree * otree * costs) : list (option ext) :=
  let '(St, Ot, c) := x in
  let ords := match root_orders Ot with Some l => l | None => [] end in
  [ Some (cost c Ot (lca_rec Ot));
    (* policy ANY, as in the implementation's run: the value of every cell is the same under every policy (C16), and with
       ALL the tie sets of an input with a zero unit cost can take the model twenty minutes to carry along *)
    mincost (Some (reconcile_thl St c RANY Ot));
    mincost (spfs St c RANY false ords Ot); mincost (spfs St c RANY true ords Ot);
    mincost (uspfs St c RANY false Ot); mincost (uspfs St c RANY true Ot) ].
"""

NAMES = ["lca", "thl", "base_spfs", "ext_spfs", "base_uspfs", "superdtl"]


def seven(case, with_exh=False):
    from superrec2.compute.reconciliation import reconcile_lca, reconcile_thl
    from superrec2.compute.exhaustive import reconcile_exhaustive
    from superrec2.compute.super_reconciliation import sreconcile_base_spfs, sreconcile_extended_spfs
    from superrec2.compute.unordered_super_reconciliation import usreconcile_base_uspfs, usreconcile_extended_uspfs
    from superrec2.utils.dynamic_programming import RetentionPolicy as RP
    out = []
    with contextlib.redirect_stderr(io.StringIO()):
        Bo = R.Built(case["S"], case["O"], case["costs"], labelled=True)
        Bu = R.Built(case["S"], case["O"], case["costs"], labelled=True, unordered=True)
        Bp = R.Built(case["S"], case["O"], case["costs"])
        out.append(R.ext_of(reconcile_lca(Bp.input).cost()))

        def m(res):
            res = list(res)
            return R.ext_of(min(o.cost() for o in res)) if res else None
        out.append(m(reconcile_thl(Bp.input, RP.ANY)))
        out.append(m(sreconcile_base_spfs(Bo.input, RP.ANY)))
        out.append(m(sreconcile_extended_spfs(Bo.input, RP.ANY)))
        out.append(m(usreconcile_base_uspfs(Bu.input, RP.ANY)))
        out.append(m(usreconcile_extended_uspfs(Bu.input, RP.ANY)))
        if with_exh:
            out.append(m(reconcile_exhaustive(Bp.input, RP.ANY)))
    return out


def relations(case, v):
    n = lambda x: float("inf") if x == R.INF else x
    lca, thl, bs, es, bu, eu = [None if x is None else n(x) for x in v[:6]]
    if thl is None or thl > lca:
        return False, f"general DTL optimum {thl} exceeds the LCA reconciliation cost {lca}"
    if case["costs"]["hgt"] == R.INF and thl != lca:
        return False, f"transfers forbidden but DTL optimum {thl} differs from the LCA cost {lca}"
    if bs is not None and (es is None or es > bs):
        return False, f"extended ordered optimum {es} exceeds the base one {bs}"
    if bu is not None and (eu is None or eu > bu):
        return False, f"SuperDTL optimum {eu} exceeds the base unordered one {bu}"
    if es is not None and (eu is None or eu > es):
        return False, f"unordered optimum {eu} exceeds the ordered one {es}"
    if bs is not None and (bu is None or bu > bs):
        return False, f"base unordered optimum {bu} exceeds the base ordered one {bs}"
    fams = {f for _, l in R.otree_leaves(case["O"]) for f in l["syn"]}
    if len(fams) == 1 and all(len(l["syn"]) == 1 for _, l in R.otree_leaves(case["O"])):
        if not (es == eu == thl):
            return False, f"single family: ordered {es}, unordered {eu}, plain DTL {thl} should coincide"
        if not (bs == bu == lca):
            return False, f"single family: base ordered {bs}, base unordered {bu} should equal the LCA cost {lca}"
    return True, "all relations hold"


def gen_case(rng, max_o, max_s, max_f, single=False):
    S = R.rand_shape(rng, rng.randint(1, max_s))
    fams = [1] if single else sorted(rng.sample(range(1, 7), rng.randint(1, max_f)))
    O = R.rand_otree(rng, rng.randint(2, max_o), R.shape_leaves(S), fams=fams)
    c = R.rand_costs(rng)
    return {"S": S, "O": O, "costs": c}


def gen_biased(rng, max_o, max_s, max_f):
    """inputs on which the labelled solvers have something to decide: families gained inside the tree, nested
    chains (c03.rand_case with clade families), several compatible root orders, transfers forbidden half of the time"""
    from . import c03
    c = c03.rand_case(rng, max_o, max_s, max_f, chain=0.5, clade=0.8)
    c.pop("prime", None)
    if rng.random() < 0.5:
        c["costs"] = dict(c["costs"], hgt=R.INF)
    return c


def _n_root_orders(case):
    syns = [l["syn"] for _, l in R.otree_leaves(case["O"])]
    fams = sorted({f for s_ in syns for f in s_})
    if len(fams) <= 3:
        return 1
    n = 0
    for perm in itertools.permutations(fams):
        pos = {f: i for i, f in enumerate(perm)}
        if all(all(pos[a] < pos[b] for a, b in zip(s_, s_[1:])) for s_ in syns):
            n += 1
    return n


def batches(ctx):
    rng = ctx.rng
    quick = ctx.quick()
    cases = [gen_case(rng, 5, 4 if i % 2 else 3, 3, single=(i % 5 == 0)) for i in range(1600 if quick else 12000)]
    cases += [gen_biased(rng, 7, 4, 3) for _ in range(400 if quick else 4000)]
    # deeper chains, four families: label decoding has inherited sets to hand down.  The ordered model builds one table per
    # compatible root order with 2^families masks per cell: inputs whose leaf orders leave more than three root orders open are
    # redrawn (a four-family input with 24 open orders costs the model twenty minutes)
    want = len(cases) + (900 if quick else 6000)
    while len(cases) < want:
        c = gen_biased(rng, 8, 4, 4)
        if _n_root_orders(c) <= 3:
            cases.append(c)
    ctx.dist["seven"] = {"cases": len(cases), "single_family": sum(1 for i in range(len(cases)) if i % 5 == 0),
                         "infinite_hgt": sum(1 for c in cases if c["costs"]["hgt"] == R.INF)}
    yield Batch(
        name="seven", header=HEADER, run="run_seven", eqb="list_eqb (opt_eqb ext_eqb)",
        ty_in="stree * otree * costs", ty_out="list (option ext)",
        cases=cases, impl=lambda c: seven(c),
        enc_in=lambda c: cpair(R.enc_stree(c["S"]), R.enc_otree(c["O"]), R.enc_costs(c["costs"])),
        enc_out=lambda c, r: clist(copt(None if v is None else R.enc_ext(v)) for v in r),
        oracle=relations, nontrivial=lambda c, r: len({json.dumps(v) for v in r}) > 1,
        exhaustive=False, shard=40,
        describe="minimum costs of lca, thl, base/ext spfs, base/ext uspfs: models vs implementation on inputs up to 5 object leaves, 3 species leaves, 3 families (every fifth input single-family)")


def _seven_big(case):
    v = seven(case, with_exh=len(R.otree_leaves(case["O"])) <= 5)
    return v


def extra(ctx):
    """the relations of the property on larger inputs (implementation only), in parallel workers"""
    from ..core import run_impl
    rng = ctx.rng
    n = 240 if ctx.quick() else 3000
    cases = [gen_case(rng, 8 if ctx.quick() else 10, 8, 3 if ctx.quick() else 4, single=(i % 3 == 0)) for i in range(n)]
    cases += [gen_biased(rng, 8, 5, 3) for _ in range(4 * n)]
    n = len(cases)

    class B:
        pass
    b = B()
    b.cases, b.impl, b.parallel = cases, _seven_big, True
    results = run_impl(b)
    bad = 0
    for case, v in zip(cases, results):
        ok, why = relations(case, v)
        if ok and len(v) == 7 and v[6] != v[1]:
            ok, why = False, f"exhaustive minimum {v[6]} differs from the DTL minimum {v[1]}"
        ctx.evaluations += 1
        if not ok:
            bad += 1
            ctx.findings.append(Finding("relations_big", case, v, "(relations of the property)", False, why))
    ctx.notes.append(f"relations evaluated on {n} larger inputs (up to 8-10 object leaves, 8 species leaves; every third single-family), {bad} failures")


def search(ctx):
    """a tie is broken but no relation fails yet: the relations on fresh biased inputs, in parallel, for a time budget"""
    import time
    from ..core import run_impl
    rng = ctx.rng
    t0 = time.time()
    budget = 150 if ctx.quick() else 900
    n = 0
    while time.time() - t0 < budget:
        cases = [gen_biased(rng, 8, 5, 4) if i % 4 else gen_case(rng, 8, 6, 3, single=True) for i in range(640)]

        class B:
            pass
        b = B()
        b.cases, b.impl, b.parallel = cases, _seven_big, True
        for case, v in zip(cases, run_impl(b)):
            n += 1
            ctx.evaluations += 1
            ok, why = relations(case, v)
            if ok and len(v) == 7 and v[6] != v[1]:
                ok, why = False, f"exhaustive minimum {v[6]} differs from the DTL minimum {v[1]}"
            if not ok:
                ctx.notes.append(f"failing-input search: violation found after {n} fresh inputs")
                return Finding("relations_big", case, v, "(relations of the property)", False, why)
    ctx.notes.append(f"failing-input search: {n} fresh inputs, none violates a relation")
    return None


def replay_case(payload):
    """relations_big findings: the seven minima recomputed on the stored input"""
    case = payload["case"]
    v = _seven_big(case)
    ok, why = relations(case, v)
    if ok and len(v) == 7 and v[6] != v[1]:
        ok, why = False, f"exhaustive minimum {v[6]} differs from the DTL minimum {v[1]}"
    return ok, why, v
