"""C09 — results do not depend on presentation and respond sanely to the costs."""
from __future__ import annotations

import json
import os
import subprocess
import sys

from ..core import Batch, Finding, cN, cZ, cbool, clist, copt, cpair
from .. import recon as R
from .. import labelled as LB
from . import c01, c02, c03

ID = "C09"
LEVEL = "proof"
PROP_FILE = "Properties/C09.v"
PROOF_FILES = ["Proofs/Meta2Proofs.v", "Proofs/SpfsFinal.v", "Proofs/UspfsFinal.v", "Proofs/MetaProofs.v", "Proofs/ThlFinal.v", "Proofs/ThlProofs.v", "Proofs/DpProofs.v", "Proofs/ReconProofs.v", "Proofs/PathFacts.v",
               "Model/Thl.v", "Model/Recon.v"]
TRUSTED = c01.TRUSTED
ASSUMES = ["binary trees", "coherent cost vectors before and after the change", "node names do not occur in the model: renaming nodes is the encoding step of the harness"]
RULE = ("random inputs up to 10 object leaves / 8 species leaves / 4 families; each is paired with a transformed twin (children reordered in both trees, nodes and families renamed, "
        "outgroup added, costs scaled, one cost raised) and a fresh-process rerun with another hash seed; non-trivial = input with >= 4 object leaves whose optimum contains a duplication or transfer")

HEADER = R.RECON_HEADER + """From SR Require Import Model.Entry Model.Thl.
(* large inputs: the minimum is read off the table (root row), the ALL set is only decoded when asked for,
   since it can hold thousands of reconciliations *)
Definition run_big (x : stree * otree * costs * bool) :=
  let '(St, Ot, c, full) := x in
  let t := thl_table St c RALL Ot in
  let m := fold_right (fun s acc => ext_min (val (tread t s)) acc) PInf (snodes St) in
  (m, if full then Some (tags (reconcile_thl St c RALL Ot)) else None).
Definition big_eqb (a b : ext * option (list rtree)) :=
  ext_eqb (fst a) (fst b) && opt_eqb (set_eqb rtree_eqb) (snd a) (snd b).
"""


# ---- transformations on cases -------------------------------------------------------

def swap_species(S, rng):
    """random reordering of children in the species tree; returns (S', path map)"""
    pmap = {}

    def go(s, p, q):
        pmap[p] = q
        if s == 0:
            return 0
        if rng.random() < 0.5:
            return [go(s[1], p + "1", q + "0"), go(s[0], p + "0", q + "1")]
        return [go(s[0], p + "0", q + "0"), go(s[1], p + "1", q + "1")]
    return go(S, "", ""), pmap


def swap_object(O, rng, pmap, fmap):
    if isinstance(O, dict):
        return {"sp": pmap[O["sp"]], "syn": [fmap[f] for f in O["syn"]]}
    a, b = swap_object(O[0], rng, pmap, fmap), swap_object(O[1], rng, pmap, fmap)
    return [b, a] if rng.random() < 0.5 else [a, b]


def canon_plain(sol):
    """order-insensitive canonical form of a solution (children as a sorted pair)"""
    if isinstance(sol, str):
        return sol
    return [sol[0]] + sorted([canon_plain(sol[1]), canon_plain(sol[2])], key=json.dumps)


def map_plain(sol, pmap):
    if isinstance(sol, str):
        return pmap[sol]
    return [pmap[sol[0]], map_plain(sol[1], pmap), map_plain(sol[2], pmap)]


def thl_result(case):
    from superrec2.compute.reconciliation import reconcile_thl
    from superrec2.utils.dynamic_programming import RetentionPolicy
    B = R.primed(case, lambda i: None)          # a plain Built; node names / branch lengths as the case says
    res = reconcile_thl(B.input, RetentionPolicy.ALL)
    sols = [B.canon(o) for o in res]
    return (R.ext_of(min(o.cost() for o in res)) if res else None), sols


def labelled_result(case, unordered):
    from superrec2.compute.super_reconciliation import sreconcile_extended_spfs, sreconcile_base_spfs
    from superrec2.compute.unordered_super_reconciliation import usreconcile_extended_uspfs, usreconcile_base_uspfs
    from superrec2.utils.dynamic_programming import RetentionPolicy
    import contextlib, io
    B = R.primed(case, lambda i: None, labelled=True, unordered=unordered)
    if case.get("base"):
        fn = usreconcile_base_uspfs if unordered else sreconcile_base_spfs
    else:
        fn = usreconcile_extended_uspfs if unordered else sreconcile_extended_spfs
    with contextlib.redirect_stderr(io.StringIO()):
        res = fn(B.input, RetentionPolicy.ALL)
    if case.get("want_sets"):
        return (R.ext_of(min(o.cost() for o in res)) if res else None), [B.canon(o) for o in res]
    return (R.ext_of(min(o.cost() for o in res)) if res else None), len(res)


def canon_lab(sol, unordered):
    """canonical form of a labelled solution that does not depend on the order of children"""
    syn = sorted(sol[1]) if unordered else list(sol[1])
    if len(sol) == 2:
        return [sol[0], syn]
    return [sol[0], syn] + sorted([canon_lab(sol[2], unordered), canon_lab(sol[3], unordered)], key=json.dumps)


def map_lab(sol, pmap, fmap):
    syn = [fmap[f] for f in sol[1]]
    if len(sol) == 2:
        return [pmap[sol[0]], syn]
    return [pmap[sol[0]], syn, map_lab(sol[2], pmap, fmap), map_lab(sol[3], pmap, fmap)]


DYADIC = [2, 3, 4, 0.5, 0.25, 2.0 ** -20, 2.0 ** -40, 2.0 ** 40]      # exact in binary floating point


def scale(c, k):
    return {x: (v if v == R.INF else v * k) for x, v in c.items()}


def raise_one(c, rng):
    c2 = dict(c)
    k = rng.choice(["spe", "dup", "hgt", "floss", "sloss"])
    if c2[k] != R.INF:
        c2[k] += rng.randint(1, 2)
    return c2


def outgroup(case):
    S2 = [case["S"], 0]

    def go(o):
        if isinstance(o, dict):
            return {"sp": "0" + o["sp"], "syn": list(o["syn"])}
        return [go(o[0]), go(o[1])]
    return dict(case, S=S2, O=go(case["O"]))


def num(v):
    return float("inf") if v == R.INF else v


def batches(ctx):
    rng = ctx.rng
    quick = ctx.quick()
    cases = []
    for _ in range(260 if quick else 2500):
        S = R.rand_shape(rng, rng.randint(2, 8))
        cases.append({"S": S, "O": R.rand_otree(rng, rng.randint(2, 10 if not quick else 8), R.shape_leaves(S)),
                      "costs": R.rand_costs(rng, plain=True)})

    def impl(c):
        v, sols = thl_result(c)
        c["full"] = len(sols) <= 60 and len(R.otree_leaves(c["O"])) <= 7     # recorded for the model side
        return {"cost": v, "all": sorted(sols, key=json.dumps)}

    def oracle(c, r):
        # independent dynamic programme over (object node, species) written from the event model
        m, opt = R.Oracle(c["S"]).best(c["O"], c["costs"])
        return ({json.dumps(x) for x in r["all"]} == opt and num(r["cost"]) == m), f"minimum {m}, {len(opt)} optimal solutions"

    ctx.dist["thl_big"] = {"cases": len(cases), "max_leaves": max(len(R.otree_leaves(c["O"])) for c in cases)}
    yield Batch(
        name="thl_big", header=HEADER, run="run_big", eqb="big_eqb",
        ty_in="stree * otree * costs * bool", ty_out="ext * option (list rtree)",
        cases=cases, impl=impl,
        enc_in=lambda c: cpair(R.enc_stree(c["S"]), R.enc_otree(c["O"]), R.enc_costs(c["costs"]), cbool(c.get("full", False))),
        enc_out=lambda c, r: cpair(R.enc_ext(r["cost"]), copt(clist(R.enc_rtree(x) for x in r["all"]) if c.get("full", False) else None)),
        oracle=oracle, nontrivial=lambda c, r: len(R.otree_leaves(c["O"])) >= 4 and len(r["all"]) >= 1,
        exhaustive=False, shard=40,
        describe="general DTL solver on inputs well beyond brute-force reach (up to 8-10 object leaves, 8 species leaves): minimum and ALL set, model vs implementation")


def _fresh_process(case, seed):
    code = ("import json,sys;sys.path.insert(0,%r);from harness.props import c09;"
            "c=json.loads(sys.stdin.read());v,s=c09.thl_result(c);print(json.dumps([v,sorted(s,key=json.dumps)]))" % str(os.path.dirname(os.path.dirname(os.path.dirname(__file__)))))
    env = dict(os.environ, PYTHONHASHSEED=str(seed))
    p = subprocess.run([sys.executable, "-c", code], input=json.dumps(case), capture_output=True, text=True, env=env, timeout=300)
    if p.returncode != 0:
        raise RuntimeError(p.stderr[-500:])
    return json.loads(p.stdout)


def _biased_costs(rng):
    """plain cost vectors; half of them with transfers cheaper than losses / duplications (where ties between
    transfer receivers appear), always inside the coherent region"""
    if rng.random() < 0.5:
        return R.rand_costs(rng, plain=True)
    while True:
        c = {"spe": rng.randint(0, 1), "dup": rng.randint(1, 5), "hgt": rng.randint(0, 2), "floss": rng.randint(1, 4), "sloss": 1}
        if R.coherent(c, plain=True):
            return c


def _meta_case(args):
    """all metamorphic relations on one base input; returns (failures, stats, notes)"""
    import random
    seed, i, quick, mode = args
    rng = random.Random(seed)
    full = (i % 4 == 0)          # every fourth input: all relations; the others: children reordering (+ oracle) only
    fails, notes = [], []
    stats = {"swap": 0, "outgroup": 0, "scale": 0, "raise": 0, "rerun": 0, "labelled": 0}

    def fail(case, what, info):
        fails.append((case, what, info))

    if mode == "plain":
        S = R.rand_shape(rng, rng.randint(2, 7))
        case = {"S": S, "O": R.rand_otree(rng, rng.randint(2, 8), R.shape_leaves(S)), "costs": _biased_costs(rng)}
        v0, s0 = thl_result(case)
        c0 = sorted((canon_plain(x) for x in s0), key=json.dumps)
        # the complete optimal set from the independent dynamic programme (the presentation must not matter,
        # so the set itself must be the specification's)
        m, opt = R.Oracle(case["S"]).best(case["O"], case["costs"])
        if num(v0) != m or {json.dumps(x) for x in s0} != opt:
            fail({"orig": case}, f"reconcile_thl: minimum {v0} with {len(s0)} optimal solutions; the specification gives {m} with {len(opt)}", {"orig": [v0, s0]})
        # children reordered in both trees (node names do not exist in this encoding; families renamed below)
        S2, pmap = swap_species(case["S"], rng)
        t = {"S": S2, "O": swap_object(case["O"], rng, pmap, {}), "costs": case["costs"],
             "names": rng.randrange(1 << 30), "dist": rng.randrange(1 << 30)}        # nodes renamed, branch lengths added
        v1, s1 = thl_result(t)
        c1 = sorted((canon_plain(x) for x in s1), key=json.dumps)
        c0m = sorted((canon_plain(map_plain(x, pmap)) for x in s0), key=json.dumps)
        stats["swap"] += 1
        if v0 != v1 or c0m != c1:
            fail({"orig": case, "twin": t}, f"reordering children changed the result: minimum {v0} vs {v1}, {len(c0m)} vs {len(c1)} optimal solutions", {"orig": [v0, s0], "twin": [v1, s1]})
        if not full:
            return fails, stats, notes
        # outgroup
        t = outgroup(case)
        v1, s1 = thl_result(t)
        stats["outgroup"] += 1
        want = sorted((json.dumps(map_plain(x, {p: "0" + p for p in R.shape_paths(case["S"])})) for x in s0))
        got = sorted(json.dumps(x) for x in s1)
        if v0 != v1:
            fail({"orig": case, "twin": t}, f"adding an outgroup changed the minimum: {v0} vs {v1}", {"orig": v0, "twin": v1})
        elif want != got:
            extra_sols = [json.loads(x) for x in got if x not in want]
            uses_new_root = all('""' in json.dumps(x) for x in extra_sols) and all(x in got for x in want)
            if case["costs"]["floss"] == 0 and uses_new_root:
                notes.append("F-OUTGROUP-TIES met on a generated case (floss = 0, extra optima on the new root)")
            else:
                fail({"orig": case, "twin": t}, "adding an outgroup changed the optimal set", {"orig": want, "twin": got})
        # scaling
        k = rng.choice(DYADIC)
        t = dict(case, costs=scale(case["costs"], k))
        v1, s1 = thl_result(t)
        stats["scale"] += 1
        if num(v1) != k * num(v0) or sorted(map(json.dumps, s1)) != sorted(map(json.dumps, s0)):
            fail({"orig": case, "twin": t}, f"scaling the costs by {k}: minimum {v0} -> {v1}, optimal set {len(s0)} -> {len(s1)}", {})
        # raising one cost (stay coherent)
        c2 = raise_one(case["costs"], rng)
        if R.coherent(c2, plain=True):
            v1, _ = thl_result(dict(case, costs=c2))
            stats["raise"] += 1
            if num(v1) < num(v0):
                fail({"orig": case, "twin": dict(case, costs=c2)}, f"raising a unit cost lowered the minimum: {v0} -> {v1}", {})
        # rerun in a fresh process with another hash seed
        if i % (160 if quick else 80) == 0:
            v1, s1 = _fresh_process(case, rng.randint(1, 10 ** 6))
            stats["rerun"] += 1
            if v1 != v0 or s1 != sorted(s0, key=json.dumps):
                fail({"orig": case}, "a fresh process with another hash seed returned a different result", {"first": [v0, s0], "second": [v1, s1]})
    else:
        # labelled solvers: children swap + scale + outgroup on minimum and number of optima
        if True:
            for unordered in ((False, True) if mode == "both" else (True,)):
                lc = (c03.rand_case(rng, 6, 4, 4, chain=0.5, clade=0.8) if unordered else dict(c02.rand_case(rng, 5, 3, 3, p_incons=0, p_pres=0)))
                lc.pop("pres", None)
                lc.pop("prime", None)
                if rng.random() < 0.4:
                    lc["base"] = True      # the base variants obey the same laws (on the LCA mapping)
                v0l, s0l = labelled_result(dict(lc, want_sets=True), unordered)
                n0 = len(s0l)
                S2, pmap = swap_species(lc["S"], rng)
                fams = sorted({f for _, l in R.otree_leaves(lc["O"]) for f in l["syn"]})
                perm = fams[:]
                rng.shuffle(perm)
                fmap = dict(zip(fams, perm))        # families renamed by a bijection, in both models

                def mapo(o):
                    if isinstance(o, dict):
                        syn = [fmap[f] for f in o["syn"]]
                        return {"sp": pmap[o["sp"]], "syn": sorted(syn) if unordered else syn}
                    a, b = mapo(o[0]), mapo(o[1])
                    return [b, a] if rng.random() < 0.5 else [a, b]
                t = {"S": S2, "O": mapo(lc["O"]), "costs": lc["costs"], "names": rng.randrange(1 << 30), "base": lc.get("base", False),
                     "fnames": rng.choice([0, 1, 2])}
                v1l, s1l = labelled_result(dict(t, want_sets=True), unordered)
                n1 = len(s1l)
                stats["labelled"] += 1
                same_sets = (sorted((canon_lab(map_lab(x, pmap, fmap), unordered) for x in s0l), key=json.dumps)
                             == sorted((canon_lab(y, unordered) for y in s1l), key=json.dumps))
                if v0l != v1l or n0 != n1 or not same_sets:
                    fail({"orig": lc, "twin": t, "pmap": pmap, "fmap": {str(a): b for a, b in fmap.items()}}, f"{'unordered' if unordered else 'ordered'} solver: reordering children / renaming families changed the result: {v0l},{n0} vs {v1l},{n1}" + ("" if same_sets else " (the sets differ)"), {})
                # monotonicity on EVERY labelled input (one solver run): one unit cost raised, the loss costs twice as often as the
                # others; the twin must stay inside the region where the solver is exact (the unordered one has the wider region)
                kks = [rng.choice(["spe", "dup", "hgt", "floss", "sloss"])]
                if unordered:
                    kks = sorted(set(kks + ["sloss", "floss"]))     # both loss costs, each on its own: they enter the unordered table separately
                for kk in kks:
                    c2 = dict(lc["costs"])
                    if c2[kk] != R.INF:
                        c2[kk] += rng.randint(1, 2)
                    if (R.ucoherent(c2) if unordered else R.coherent(c2)):
                        v4l, _ = labelled_result(dict(lc, costs=c2), unordered)
                        if v0l is not None and (v4l is None or num(v4l) < num(v0l)):
                            fail({"orig": lc, "twin": dict(lc, costs=c2)}, f"{'unordered' if unordered else 'ordered'} solver: raising a unit cost lowered the minimum: {v0l} -> {v4l}", {})
                if not full:
                    continue
                k = rng.choice(DYADIC)
                v2l, n2 = labelled_result(dict(lc, costs=scale(lc["costs"], k)), unordered)
                if (v0l is None) != (v2l is None) or (v0l is not None and (num(v2l) != k * num(v0l) or n2 != n0)):
                    fail({"orig": lc}, f"{'unordered' if unordered else 'ordered'} solver: scaling by {k}: {v0l},{n0} -> {v2l},{n2}", {})
                v3l, n3 = labelled_result(outgroup(lc), unordered)
                # F-OUTGROUP-TIES: with floss = 0 the outgroup may ADD optima (those using the new root); it never removes one
                if v3l != v0l or (n3 != n0 if lc["costs"]["floss"] > 0 else n3 < n0):
                    fail({"orig": lc}, f"{'unordered' if unordered else 'ordered'} solver: outgroup changed the result: {v0l},{n0} -> {v3l},{n3}", {})
    return fails, stats, notes


def extra(ctx, n=None):
    """metamorphic relations evaluated on the implementation (both sides of each pair), in parallel"""
    import multiprocessing as mp
    from .. import core
    rng = ctx.rng
    quick = ctx.quick()
    n_plain, n_lab, n_ulab = (1800, 240, 2400) if quick else (12000, 1500, 12000)
    if n:
        n_plain, n_lab, n_ulab = n, n // 8, n // 3
    args = ([(rng.randrange(1 << 62), i, quick, "plain") for i in range(n_plain)]
            + [(rng.randrange(1 << 62), i, quick, "both") for i in range(n_lab)]
            + [(rng.randrange(1 << 62), i, quick, "unordered") for i in range(n_ulab)])
    n = len(args)
    with mp.get_context("fork").Pool(core.NPROC) as pool:
        results = pool.map(_meta_case, args, chunksize=8)
    stats = {"swap": 0, "outgroup": 0, "scale": 0, "raise": 0, "rerun": 0, "labelled": 0}
    bad = 0
    for fails, st, notes in results:
        for k, v in st.items():
            stats[k] += v
        for x in notes:
            if x not in ctx.notes:
                ctx.notes.append(x)
        for case, what, info in fails:
            bad += 1
            ctx.findings.append(Finding("metamorphic", case, info, "(metamorphic relation)", False, what))
        ctx.evaluations += 1
    ctx.dist["metamorphic"] = stats
    ctx.notes.append(f"metamorphic relations: {n} base inputs, {bad} failures")


def known_signature(f, kf):
    return False


def replay_known(ctx, kf):
    if kf["id"] == "F-OUTGROUP-TIES":
        w = kf["witness"]
        v0, s0 = thl_result(w)
        v1, s1 = thl_result(outgroup(w))
        return (len(s1) != len(s0) and v0 == v1), f"with floss = 0 the optimal set grows from {len(s0)} to {len(s1)} solutions when an outgroup is added (minimum unchanged: {v0})"
    return False, "not a C09 witness"


OPEN_GOALS = ["run-to-run determinism of the IMPLEMENTATION (iteration order of Python sets under different hash seeds) is not a statement about the "
              "pure Gallina models; it is exercised by reruns in fresh processes with other hash seeds, compared as sets"]
TECHNIQUE = ("Coq proofs of the metamorphic laws on the specification optima of the three models (cost-preserving bijections for child reordering in both trees and family renaming, "
             "linearity, monotonicity, push-down of the root for the outgroup) transferred to the solver models through the exactness theorems of C01/C02/C03; metamorphic pairs also run on the implementation, reruns in fresh processes")
LEVEL_TEXT = ("Machine-checked for plain, ordered and unordered (canonical and all-labellings) optima, and through the exactness theorems for reconcile_thl / SPFS / USPFS inside the coherent region: "
              "scaling all unit costs by k>0 scales every cost and keeps the optimal set; raising unit costs never lowers the cost of a valid solution nor the minimum; reordering the children of object-tree "
              "nodes and of species-tree nodes and renaming the gene families by any bijection are cost-preserving bijections on the optimal sets; adding an outgroup species keeps the minimum (coherent region) "
              "and, when full losses cost something and transfers are finite, the optimal set exactly (the image under the path shift); with floss = 0 the set may grow (kernel-checked counter-example = known finding "
              "F-OUTGROUP-TIES). Run-to-run determinism of the implementation is not a theorem: it is exercised on the implementation (fresh processes with other hash seeds); "
              "the models agree with the implementation on inputs up to 10 object leaves and the metamorphic twins are also run on the implementation.")
LEVEL_NOTE = "Determinism under hash seeds rests on the rerun sample only. Known finding F-OUTGROUP-TIES (floss = 0) is replayed. Trusted: Coq kernel, models, correspondence. No axioms."


def search(ctx):
    """a tie is broken but no concrete failing input yet: more metamorphic twins (children swaps) and
    direct oracle comparisons on fresh inputs, for a time budget"""
    import time
    rng = ctx.rng
    t0 = time.time()
    budget = 150 if ctx.quick() else 900
    n = 0
    while time.time() - t0 < budget:
        S = R.rand_shape(rng, rng.randint(2, 5))
        case = {"S": S, "O": R.rand_otree(rng, rng.randint(3, 7), R.shape_leaves(S)), "costs": R.rand_costs(rng, plain=True)}
        n += 1
        ctx.evaluations += 1
        v0, s0 = thl_result(case)
        m, opt = R.Oracle(case["S"]).best(case["O"], case["costs"])
        if num(v0) != m or {json.dumps(x) for x in s0} != opt:
            return Finding("search", case, [v0, s0], "(specification oracle)", False,
                           f"reconcile_thl returns minimum {v0} with {len(s0)} optimal solutions; the true minimum is {m} with {len(opt)}")
        S2, pmap = swap_species(case["S"], rng)
        t = {"S": S2, "O": swap_object(case["O"], rng, pmap, {}), "costs": case["costs"]}
        v1, s1 = thl_result(t)
        if v0 != v1 or len(s0) != len(s1):
            return Finding("search", {"orig": case, "twin": t}, {"orig": [v0, len(s0)], "twin": [v1, len(s1)]}, "(metamorphic relation)", False,
                           f"reordering children changed the result: minimum {v0} vs {v1}, {len(s0)} vs {len(s1)} optimal solutions")
    ctx.notes.append(f"failing-input search: {n} fresh inputs, none violates the property")
    return None


def replay_case(payload):
    """metamorphic / search findings: the relation named in the stored verdict is evaluated again on the stored pair"""
    case, what = payload["case"], payload.get("detail", "")
    orig, twin = case.get("orig", case), case.get("twin")
    lab = what.startswith("unordered solver") or what.startswith("ordered solver")
    unordered = what.startswith("unordered solver")

    def res(c):
        if lab:
            return labelled_result(c, unordered)
        v, s = thl_result(c)
        return v, len(s)
    v0, n0 = res(orig)
    if "specification gives" in what or "the true minimum is" in what:
        v, s = thl_result(orig)
        m, opt = R.Oracle(orig["S"]).best(orig["O"], orig["costs"])
        return (num(v) == m and {json.dumps(x) for x in s} == opt), f"minimum {v} with {len(s)} optimal solutions; the specification gives {m} with {len(opt)}", [v, s]
    if "fresh process" in what:
        v, s = thl_result(orig)
        v1, s1 = _fresh_process(orig, 12345)
        return (v1 == v and s1 == sorted(s, key=json.dumps)), "rerun in a fresh process with another hash seed", [v, len(s), v1, len(s1)]
    if "outgroup" in what:
        v1, n1 = res(outgroup(orig))
        ok = v1 == v0 and (n1 == n0 or (orig["costs"]["floss"] == 0 and n1 > n0))
        return ok, f"outgroup: {v0},{n0} -> {v1},{n1}", [v0, n0, v1, n1]
    if "scaling" in what:
        import re
        ks = re.search(r"by ([0-9.eE+-]+?)[:,]", what + ":").group(1)
        k = float(ks) if any(ch in ks for ch in ".eE") else int(ks)
        v1, n1 = res(dict(orig, costs=scale(orig["costs"], k)))
        ok = (v0 is None and v1 is None) or (v0 is not None and v1 is not None and num(v1) == k * num(v0) and n1 == n0)
        return ok, f"scaling by {k}: {v0},{n0} -> {v1},{n1}", [v0, n0, v1, n1]
    if twin is None:
        return True, "no twin stored for this relation", [v0, n0]
    if lab and "pmap" in case:
        fmap = {int(a): b for a, b in case["fmap"].items()}
        v0, s0 = labelled_result(dict(orig, want_sets=True), unordered)
        v1, s1 = labelled_result(dict(twin, want_sets=True), unordered)
        same = (sorted((canon_lab(map_lab(x, case["pmap"], fmap), unordered) for x in s0), key=json.dumps)
                == sorted((canon_lab(y, unordered) for y in s1), key=json.dumps))
        return (v0 == v1 and same), f"reordering children / renaming: minimum {v0} vs {v1}, {len(s0)} vs {len(s1)} solutions, sets {'equal' if same else 'differ'}", [v0, len(s0), v1, len(s1)]
    v1, n1 = res(twin)
    if "raising" in what:
        ok = v0 is None or (v1 is not None and num(v1) >= num(v0))
        return ok, f"raising a unit cost: {v0} -> {v1}", [v0, v1]
    return (v0 == v1 and n0 == n1), f"reordering children / renaming: {v0},{n0} vs {v1},{n1}", [v0, n0, v1, n1]
