"""C14 — layouts are geometrically coherent and orientation-symmetric."""
from __future__ import annotations

import json
import math
from fractions import Fraction

from .. import recon
from ..core import Batch, Finding, cN, cZ, cbool, clist, cnat, copt, cpair
from . import c13

ID = "C14"
LEVEL = "proof"
PROP_FILE = "Properties/C14.v"
PROOF_FILES = ["Proofs/LayoutExtraProofs.v", "Proofs/LayoutProofs.v", "Model/Layout.v", "Proofs/BranchesProofs.v", "Model/Branches.v",
               "Proofs/ReconProofs.v", "Model/Recon.v", "Base/PathB.v"]
TRUSTED = [
    "model Model/Layout.v of render/layout.py:_layout_branches/_layout_subtrees/_finalize_layout and utils/geometry.py over "
    "exact rationals, the two orientation code paths written separately as in the source; built on Model/Branches.v (C13)",
]
ASSUMES = [
    "IEEE-754 rounding is not modelled: the correspondence uses dyadic sizes/parameters (integers and halves) on which every "
    "+, -, /2, min, max of the layout is exact in binary64, and compares Fraction(float) with the model's rationals exactly",
    "the TeX measurer returns one box per input string, in order (replaced by a stub; TeX is absent)",
]
RULE = ("cases as C13 (exhaustive valid reconciliations of all inputs up to 3x3 leaves, all valid reconciliations of sampled 4-5 leaf inputs, "
        "random ones up to 10 object leaves), both orientations, stub sizes = integers and halves in [1,100], every numeric DrawParams field "
        "perturbed within positive dyadics; non-trivial = at least one internal species carrying a duplication or transfer branch and a loss")
OPEN_GOALS = [
    "finiteness of all coordinates: holds trivially in the exact-rational model; it is not a statement about IEEE-754 floats "
    "(the correspondence converts every float with Fraction(), which rejects inf/nan, on every generated case)",
    "idempotence of the IMPLEMENTATION (second run on the same objects, after the first wrote colour features): no theorem (the model is a pure "
    "Gallina function); the second run is compared with the first by the harness on every generated case (twice_same flag)",
]
TECHNIQUE = ("Coq proofs about an executable exact-rational model of layout.compute: structural induction for the mirror law between the two "
             "hand-written orientation branches, linear arithmetic over Q for containment/disjointness; model tied to the code by "
             "exhaustive-small + random correspondence (vm_compute, exact comparison through Fraction(float)); independent geometric oracle "
             "(containment, overlap, mirror by recomputation, idempotence) run on every generated case")
LEVEL_TEXT = ("Additional theorems: a sufficient input-level condition for every trunk to lie inside its box (C14_trunk_inside_sufficient, C14_trunks_disjoint_narrow); the totalisation defaults of the model (missing measure = (0,0), missing key) are never taken when one size per measured node is supplied (C14_zip_sizes_no_default, C14_measure_no_default, C14_pfind_no_default); non-vacuity examples for the trunk proviso and the mirror law. Machine-checked, any tree sizes: the layout of every valid reconciliation is defined (no missing key) for all parameters and sizes; (mirror) the horizontal layout is structurally "
              "the transpose of the vertical layout of the size-swapped input, for all parameters and sizes; for non-negative parameters and node "
              "sizes, in both orientations: the boxes of the two child species lie inside the parent's box and do not overlap; no two trunks "
              "overlap provided every trunk lies inside its own species box, and that proviso cannot be dropped (the section-9 witness, evaluated "
              "by the kernel); the anchors/branches of every species are keyed exactly by the anchor sets/branch dicts of the C13 model, in which "
              "every reference of a drawn branch exists.")
LEVEL_NOTE = ("Partial: exact rationals, not IEEE floats (tied to the code by exact comparison on dyadic inputs only); idempotence of the "
              "implementation (second run on the same objects, after the first wrote colour features) and finiteness are checked by the harness on "
              "every generated case, as are all geometric clauses by an independent oracle. Known finding F-TRUNK-OVERLAP: a trunk overlap in which "
              "one trunk is outside its own box is reported as KNOWN-FINDING, never as a violation; any other failing clause is a violation.")

KNOWN_ID = "F-TRUNK-OVERLAP"
KNOWN_TAG = "TRUNK-OVERLAP-OUTSIDE-OWN-BOX"
# the entry the lead is asked to add to known_findings.jsonl (kept here so that replay_known can be exercised before that)
KNOWN_ENTRY = {
    "id": KNOWN_ID, "property": "C14", "status": "known",
    "what": "two species trunks overlap: a trunk centred on the gap between its child boxes leaves its own species box "
            "(render/layout.py trunk_pos) and intersects a trunk of the sibling subtree",
    "site": "src/superrec2/render/layout.py:495-498,519-522",
    "signature": "one of the two overlapping trunks is not contained in its own species box",
    "witness": {
        "S": [[0, 0], [0, [0, 0]]],
        "O": [{"sp": "00", "syn": []}, [{"sp": "01", "syn": []}, [{"sp": "110", "syn": []}, {"sp": "01", "syn": []}]]],
        "sol": ["1", "00", ["1", "01", ["110", "110", "01"]]],
        "lab": 0, "orient": "V", "params2": {},
        "sizes2": [[200, 200, 0], [200, 200, 0], [200, 2, 0], [200, 2, 0], [2, 2, 0], [200, 2, 0], [200, 2, 0], [2, 2, 0], [2, 2, 0]],
    },
}

HEADER = recon.RECON_HEADER + """From Coq Require Import QArith.
From SR Require Import Model.Branches Model.Layout.
Definition r4 := (Q * Q * Q * Q)%type.
Definition show_r (r : rect) : r4 := (Qred (rx r), Qred (ry r), Qred (rw r), Qred (rh r)).
Definition show_p (p : Q * Q) : Q * Q := (Qred (fst p), Qred (snd p)).
Definition nat_of_kind (k : kind) : nat := match k with KLeaf => 0 | KSpe => 1 | KDup => 2 | KTr => 3 | KLoss => 4 end.
Definition showb := (anchor * nat * r4 * (Q * Q) * (Q * Q) * (Q * Q) * (Q * Q))%type.
Definition show_d (d : dbranch) : showb := (d_id d, nat_of_kind (d_kind d), show_r (d_rect d), show_p (d_parent d), show_p (d_left d), show_p (d_right d), show_p (d_child d)).
Definition shows := (r4 * r4 * Q * list (anchor * (Q * Q)) * list showb)%type.
Definition show_s (s : sublayout) : shows := (show_r (l_rect s), show_r (l_trunk s), Qred (l_fork s), map (fun e => (fst e, show_p (snd e))) (l_anchors s), map show_d (l_branches s)).
Definition out14 := (option (list shows) * (bool * bool))%type.   (* layout; (mirror law holds, second run identical) *)
Definition mkP (a b c d e : Q) : params := {| pad := a; gsp := b; ovh := c; mss := d; lsp := e |}.
Definition run14 (x : bool * params * stree * rtree * list (Q * Q)) : out14 :=
  let '(o, P, St, r, sizes) := x in
  (option_map (fun t => map show_s (flatten t)) (layout (if o then Horizontal else Vertical) P St r sizes), (true, true)).
Definition q2_eqb (a b : Q * Q) : bool := Qeq_bool (fst a) (fst b) && Qeq_bool (snd a) (snd b).
Definition r4_eqb (a b : r4) : bool :=
  let '(x1, y1, w1, h1) := a in let '(x2, y2, w2, h2) := b in
  Qeq_bool x1 x2 && Qeq_bool y1 y2 && Qeq_bool w1 w2 && Qeq_bool h1 h2.
Definition showb_eqb (a b : showb) : bool :=
  let '(i1, k1, r1, p1, l1, g1, c1) := a in let '(i2, k2, r2, p2, l2, g2, c2) := b in
  anchor_eqb i1 i2 && Nat.eqb k1 k2 && r4_eqb r1 r2 && q2_eqb p1 p2 && q2_eqb l1 l2 && q2_eqb g1 g2 && q2_eqb c1 c2.
Definition anc_eqb (a b : anchor * (Q * Q)) : bool := anchor_eqb (fst a) (fst b) && q2_eqb (snd a) (snd b).
Definition shows_eqb (a b : shows) : bool :=
  let '(r1, t1, f1, a1, b1) := a in let '(r2, t2, f2, a2, b2) := b in
  r4_eqb r1 r2 && r4_eqb t1 t2 && Qeq_bool f1 f2 && set_eqb anc_eqb a1 a2 && set_eqb showb_eqb b1 b2.
Definition eqb14 (a b : out14) : bool :=
  opt_eqb (list_eqb shows_eqb) (fst a) (fst b) && Bool.eqb (fst (snd a)) (fst (snd b)) && Bool.eqb (snd (snd a)) (snd (snd b)).
"""


# ---------------------------------------------------------------------------
# implementation side


def fr(x):
    if isinstance(x, float) and not math.isfinite(x):
        raise ValueError("non-finite coordinate")
    f = Fraction(x)
    return [f.numerator, f.denominator]


def pos2(p):
    return [fr(p.x), fr(p.y)]


def rect4(r):
    return [fr(r.x), fr(r.y), fr(r.w), fr(r.h)]


def canon_layout(b, lay):
    """per species (pre-order): dict with exact coordinates; anchors/branches sorted by anchor id"""
    ident = c13.anchor_ids(b, lay)
    by = {}
    for sp, sl in lay.items():
        brs = []
        for key, br in sl.branches.items():
            brs.append({"id": list(ident(key)), "kind": c13.kind_index(br.kind), "rect": rect4(br.rect),
                        "ap": pos2(br.anchor_parent), "al": pos2(br.anchor_left), "ar": pos2(br.anchor_right),
                        "ac": pos2(br.anchor_child),
                        "left": None if br.left is None else list(ident(br.left)),
                        "right": None if br.right is None else list(ident(br.right))})
        by[b.spath[sp]] = {"path": b.spath[sp], "rect": rect4(sl.rect), "trunk": rect4(sl.trunk), "fork": fr(sl.fork_thickness),
                           "anchors": sorted([list(ident(k)), pos2(v)] for k, v in sl.anchors.items()),
                           "branches": sorted(brs, key=lambda d: d["id"]),
                           "order": [list(ident(k)) for k in sl.branches]}
    return [by[p] for p in recon.shape_paths(b.S)]


def compute_twice(case, sizes2=None, orient=None):
    """layout.compute twice on the same output object (fresh stub each time); canonical results"""
    from superrec2.utils import tex
    from superrec2.render import layout
    c = dict(case)
    if orient is not None:
        c["orient"] = orient
    b, out = c13.build_output(c)
    # colour annotations on object nodes, derived from the case itself (deterministic): every third case
    # colours one or two internal nodes, so that the colour features the first run writes matter to the second
    import hashlib
    h = int(hashlib.sha1(json.dumps([c["S"], c["O"], c["sol"]], sort_keys=True).encode()).hexdigest(), 16)
    internal = sorted(p for p, n in b.onode.items() if not n.is_leaf())
    if internal and h % 3 == 0:
        b.onode[internal[h % len(internal)]].add_feature("color", "FF0000")
        if len(internal) > 2 and h % 2 == 0:
            b.onode[internal[(h // 7) % len(internal)]].add_feature("color", "0000FF")
    params = c13.draw_params(c)
    res = []
    old = tex.measure
    try:
        for _ in range(2):
            tex.measure = c13.Stub(sizes2 if sizes2 is not None else c["sizes2"])
            lay = layout.compute(out, params)
            canon = canon_layout(b, lay)
            ident = c13.anchor_ids(b, lay)
            cols = sorted([list(ident(k)), getattr(br, "color", None)] for sl in lay.values() for k, br in sl.branches.items())
            res.append(Laid(canon, cols))
    finally:
        tex.measure = old
    return res


class Laid(list):
    """canonical layout (a list, as before) that also remembers the colour of every branch; two runs are
    the same only if geometry AND colours agree"""

    def __init__(self, canon, cols):
        super().__init__(canon)
        self.cols = cols

    def __eq__(self, other):
        return list.__eq__(self, other) and getattr(other, "cols", self.cols) == self.cols

    def __ne__(self, other):
        return not self.__eq__(other)


def swap_sizes2(sizes2):
    return [[h2 + d2, w2, 0] for w2, h2, d2 in sizes2]


def tpos(p):
    return [p[1], p[0]]


def trect(r):
    return [r[1], r[0], r[3], r[2]]


def transpose_layout(lay):
    out = []
    for s in lay:
        out.append({"path": s["path"], "rect": trect(s["rect"]), "trunk": trect(s["trunk"]), "fork": s["fork"],
                    "anchors": [[a, tpos(p)] for a, p in s["anchors"]],
                    "branches": [dict(d, rect=trect(d["rect"]), ap=tpos(d["ap"]), al=tpos(d["al"]), ar=tpos(d["ar"]), ac=tpos(d["ac"]))
                                 for d in s["branches"]],
                    "order": s["order"]})
    return out


def impl14(case):
    try:
        first, second = compute_twice(case)
    except Exception as e:
        return {"error": type(e).__name__ + ": " + str(e)[:200]}
    r = {"layout": first, "twice_same": first == second}
    try:
        other = "H" if case["orient"] == "V" else "V"
        mirrored, _ = compute_twice(case, sizes2=swap_sizes2(case["sizes2"]), orient=other)
        r["mirror_same"] = transpose_layout(mirrored) == first
    except Exception as e:
        r["mirror_same"] = False
        r["mirror_error"] = type(e).__name__ + ": " + str(e)[:200]
    return r


# ---------------------------------------------------------------------------
# Gallina literals


def cQ(f):
    n, d = f
    return f"(({n})%Z # {d}%positive)"


def cQ2(p):
    return cpair(cQ(p[0]), cQ(p[1]))


def cR4(r):
    return cpair(*(cQ(x) for x in r))


def measured_sizes(case, n):
    s2 = case["sizes2"]
    return [([s2[i % len(s2)][0], 2], [s2[i % len(s2)][1] + s2[i % len(s2)][2], 2]) for i in range(n)]


def enc_in14(case):
    p2 = dict(c13.DEFAULT_PARAMS2)
    p2.update(case.get("params2") or {})
    P = "(mkP " + " ".join(cQ([p2[k], 2]) for k in c13.LAYOUT_PARAMS) + ")"
    depth = max(len(p) for p in recon.shape_paths(case["S"]))
    n = len(c13.sol_nodes(case["sol"])) * (1 + depth)      # upper bound on the number of measured branches
    sizes = clist(cpair(cQ(w), cQ(h)) for w, h in measured_sizes(case, n))
    return cpair(cbool(case["orient"] == "H"), P, recon.enc_stree(case["S"]), recon.enc_rtree(case["sol"]), sizes)


def enc_out14(case, r):
    if "error" in r:
        return "(None, (true, true))"
    items = []
    for s in r["layout"]:
        anchors = clist(cpair(c13.enc_anchor(a), cQ2(p)) for a, p in s["anchors"])
        brs = clist(cpair(c13.enc_anchor(d["id"]), cnat(d["kind"]), cR4(d["rect"]), cQ2(d["ap"]), cQ2(d["al"]), cQ2(d["ar"]), cQ2(d["ac"]))
                    for d in s["branches"])
        items.append(cpair(cR4(s["rect"]), cR4(s["trunk"]), cQ(s["fork"]), anchors, brs))
    return "(Some " + clist(items) + ", " + cpair(cbool(bool(r.get("mirror_same", True))), cbool(bool(r.get("twice_same", True)))) + ")"


# ---------------------------------------------------------------------------
# independent oracle (property text; exact arithmetic on the implementation's output)


def F(f):
    return Fraction(f[0], f[1])


class R:
    def __init__(self, r4):
        self.x, self.y, self.w, self.h = (F(v) for v in r4)

    def overlaps(self, o):
        return self.x < o.x + o.w and o.x < self.x + self.w and self.y < o.y + o.h and o.y < self.y + self.h

    def inside(self, o):
        return o.x <= self.x and o.y <= self.y and self.x + self.w <= o.x + o.w and self.y + self.h <= o.y + o.h

    def __repr__(self):
        return f"(x={float(self.x)}, y={float(self.y)}, {float(self.w)}x{float(self.h)})"


def geometry_findings(case, r):
    """-> (violations: [str], known: [str]) from the property's clauses"""
    if "error" in r:
        return ["the implementation raised " + r["error"] + " (a non-finite coordinate or no layout at all)"], []
    lay = r["layout"]
    by = {s["path"]: s for s in lay}
    viol, known = [], []
    # boxes: siblings disjoint, children inside the parent
    for s in lay:
        p = s["path"]
        if p + "0" in by:
            a, b, me = R(by[p + "0"]["rect"]), R(by[p + "1"]["rect"]), R(s["rect"])
            if a.overlaps(b):
                viol.append(f"boxes of the sibling species {p + '0'!r} {a} and {p + '1'!r} {b} overlap")
            for q, c in ((p + "0", a), (p + "1", b)):
                if not c.inside(me):
                    viol.append(f"box of species {q!r} {c} is not inside its parent's box {me}")
    # trunks
    paths = [s["path"] for s in lay]
    for i, p in enumerate(paths):
        for q in paths[i + 1:]:
            tp, tq = R(by[p]["trunk"]), R(by[q]["trunk"])
            if tp.overlaps(tq):
                in_p, in_q = tp.inside(R(by[p]["rect"])), tq.inside(R(by[q]["rect"]))
                msg = (f"trunks of species {p!r} {tp} and {q!r} {tq} overlap"
                       + ("" if in_p else f"; trunk of {p!r} is not inside its own box {R(by[p]['rect'])}")
                       + ("" if in_q else f"; trunk of {q!r} is not inside its own box {R(by[q]['rect'])}"))
                siblings = len(p) == len(q) and p[:-1] == q[:-1]
                if in_p and in_q:
                    viol.append(msg + " although both lie inside their own boxes")
                elif siblings:
                    # the spacing of two sibling subtrees accounts for a trunk that sticks out of its box towards the
                    # sibling: sibling trunks never overlap on the recorded finding, only an uncle's / cousin's trunk does
                    viol.append(msg + " (sibling species)")
                elif p.startswith(q) or q.startswith(p):
                    # nor does a trunk ever reach the trunk of one of its own ancestors / descendants on the unchanged code
                    # (0 of 157 such overlaps in 140 000 layouts are of this kind): not the recorded finding
                    viol.append(msg + " (a species and one of its ancestors)")
                else:
                    known.append(KNOWN_TAG + ": " + msg)
    # anchors referenced by drawn branches
    species_of = {p: s for p, s, _, _ in c13.sol_nodes(case["sol"])}
    for s in lay:
        p = s["path"]
        ids = {tuple(d["id"]) for d in s["branches"]}

        def anchors_of(q):
            return {tuple(a) for a, _ in by[q]["anchors"]} if q in by else set()
        for d in s["branches"]:
            k, left, right = d["kind"], d["left"], d["right"]
            if k == 1 and (left is None or right is None or tuple(left) not in anchors_of(p + "0") or tuple(right) not in anchors_of(p + "1")):
                viol.append(f"speciation {d['id']} in {p!r} refers to anchors {left}/{right} missing in the child species")
            if k == 4:
                side, a = ("0", left) if right is None else ("1", right)
                if a is None or tuple(a) not in anchors_of(p + side):
                    viol.append(f"loss {d['id']} in {p!r} refers to anchor {a} missing in species {p + side!r}")
            if k == 2 and (left is None or right is None or tuple(left) not in ids or tuple(right) not in ids):
                viol.append(f"duplication {d['id']} in {p!r} refers to branches {left}/{right} missing in the same species")
            if k == 3:
                if left is None or tuple(left) not in ids:
                    viol.append(f"transfer {d['id']} in {p!r} refers to branch {left} missing in the same species")
                if right is None or tuple(right) not in anchors_of(species_of.get(right[0], "?")):
                    viol.append(f"transfer {d['id']} in {p!r} refers to anchor {right} missing in the target species")
    if not r.get("mirror_same", True):
        viol.append("the layout is not the mirror image (x and y exchanged) of the other orientation's layout computed with width and "
                    "height of every node exchanged" + (": " + r["mirror_error"] if "mirror_error" in r else ""))
    if not r.get("twice_same", True):
        viol.append("computing the layout twice gives different results")
    return viol, known


def oracle14(case, r):
    """for a model/implementation disagreement: does the implementation's answer violate C14 (known finding aside)?"""
    viol, known = geometry_findings(case, r)
    if viol:
        return False, viol[0]
    if known:
        return True, "only the recorded known finding: " + known[0]
    return True, "all C14 clauses hold on the implementation's layout (finite, boxes nested and disjoint, trunks disjoint, anchors exist, mirror, idempotent)"


_SEEN: list = []       # (case, result) of every implementation run, for the oracle sweep in extra()


def impl14_recorded(case):
    return impl14(case)


def observe14(case, r):       # runs in the parent process (Batch.observe): the pairs survive the worker pool
    _SEEN.append((case, r))


def deep_layout_verdict(n_leaves, orient="V"):
    """A valid reconciliation whose object tree is a caterpillar of `n_leaves` genes (far deeper than the
    interpreter's recursion limit) over the species tree (X,Y): the layout must exist and satisfy the box and
    trunk clauses.  Built iteratively (the harness itself must not recurse)."""
    from ete3 import Tree
    from superrec2.model.reconciliation import ReconciliationInput, ReconciliationOutput
    from superrec2.utils.trees import LowestCommonAncestor
    from superrec2.render import layout
    from superrec2.render.model import DrawParams, Orientation
    from superrec2.utils import tex
    sp = Tree()
    sp.name = "XY"
    x = sp.add_child(name="X")
    y = sp.add_child(name="Y")
    # caterpillar: a duplication chain in X, the last two genes split between X and Y (one speciation at the bottom)
    bottom = Tree()
    bottom.name = "s"
    gx = bottom.add_child(name="X_0")
    gy = bottom.add_child(name="Y_0")
    leafmap = {gx: x, gy: y}
    mapping = {gx: x, gy: y, bottom: sp}
    cur = bottom
    for i in range(1, n_leaves - 1):
        up = Tree()
        up.name = f"d{i}"
        leaf = Tree()
        leaf.name = f"X_{i}"
        up.add_child(cur)
        up.add_child(leaf)
        leafmap[leaf] = x
        mapping[leaf] = x
        mapping[up] = sp
        cur = up
    rec = ReconciliationOutput(ReconciliationInput(cur, LowestCommonAncestor(sp), leafmap), mapping)
    old = tex.measure
    tex.measure = lambda texts, preamble="": [tex.MeasureBox(4.0, 3.0, 1.0) for _ in texts]
    try:
        lay = layout.compute(rec, DrawParams(orientation=Orientation.VERTICAL if orient == "V" else Orientation.HORIZONTAL))
    except RecursionError:
        return False, f"layout.compute raised RecursionError on a valid reconciliation whose object tree is {n_leaves - 1} levels deep"
    except Exception as e:  # noqa: BLE001
        return False, f"layout.compute raised {type(e).__name__} on a deep caterpillar ({n_leaves} leaves)"
    finally:
        tex.measure = old
    rx, ry, rr = lay[x].rect, lay[y].rect, lay[sp].rect
    inside = lambda a, b: a.x >= b.x - 1e-9 and a.y >= b.y - 1e-9 and a.x + a.w <= b.x + b.w + 1e-9 and a.y + a.h <= b.y + b.h + 1e-9
    overlap = lambda a, b: a.x < b.x + b.w and b.x < a.x + a.w and a.y < b.y + b.h and b.y < a.y + a.h
    if not (inside(rx, rr) and inside(ry, rr)) or overlap(rx, ry):
        return False, "deep caterpillar: child species boxes not nested / overlapping"
    n_br = sum(len(sl.branches) for sl in lay.values())
    if n_br < 2 * n_leaves - 1:
        return False, f"deep caterpillar: {n_br} branches laid out for {2 * n_leaves - 1} object nodes"
    return True, "deep caterpillar laid out"


def extra(ctx):
    """Run the property's own oracle on EVERY generated case (not only where model and implementation differ)."""
    for n, orient in ((1500, "V"), (1200, "H")):
        ok, why = deep_layout_verdict(n, orient)
        ctx.evaluations += 1
        ctx.dist.setdefault("deep_object_trees", []).append({"leaves": n, "orient": orient, "ok": ok})
        if not ok:
            ctx.findings.append(Finding("deep_tree", {"leaves": n, "orient": orient}, {"verdict": why}, "(layout of a very deep object tree)", False, why))
    already = {json.dumps(f.case, sort_keys=True) for f in ctx.findings}
    n_known = n_viol = 0
    seen_known = False
    for case, r in _SEEN:
        viol, known = geometry_findings(case, r)
        if viol:
            n_viol += 1
            if json.dumps(case, sort_keys=True) not in already and n_viol <= 3:
                ctx.findings.append(Finding("layout", case, r, "(oracle sweep over every generated case)", False, viol[0]))
        elif known:
            n_known += 1
            if case.get("S") == KNOWN_ENTRY["witness"]["S"] and case.get("sol") == KNOWN_ENTRY["witness"]["sol"]:
                continue        # the recorded witness (and its mirror image): reported by replay_known
            if not seen_known:
                seen_known = True
                ctx.findings.append(Finding("layout", case, {"known": known[0]}, "(oracle sweep over every generated case)", False, known[0]))
    ctx.dist["c14_oracle_sweep"] = {"cases": len(_SEEN), "violating": n_viol, "with_known_trunk_overlap": n_known}


def _search_one(seed):
    """one fresh random layout judged by the geometric oracle alone: (case, result, first violation | None)"""
    import random
    rng = random.Random(seed)
    ns = rng.randint(4, 9)
    no = rng.randint(ns, ns + 6)
    S = recon.rand_shape(rng, ns)
    if rng.random() < 0.4:           # mirror-symmetric species trees: sibling subtrees of equal height
        A = recon.rand_shape(rng, rng.randint(2, 4))
        S = [A, _mirror(A)]
    if rng.random() < 0.5:           # speciation-only histories on balanced-ish species trees: every species holds one gene
        O = _one_gene_per_species(S)
        sol = _lca_solution(S)
    else:
        O = recon.rand_otree(rng, no, recon.shape_leaves(S))
        sol = c13.rand_valid(rng, recon.Oracle(S), O)
    sizes = c13.rand_sizes2(rng, 40)
    if rng.random() < 0.6:           # extreme contrasts: a few very wide / very tall nodes among tiny ones
        sizes = []
        for _ in range(40):
            w2 = rng.choice([2, 4, 10, 160, 200]) if rng.random() < 0.7 else rng.randint(2, 200)
            h2 = rng.choice([2, 4, 10, 160, 200]) if rng.random() < 0.7 else rng.randint(2, 200)
            d2 = rng.randint(0, h2 - 1)
            sizes.append([w2, h2 - d2, d2])
    case = {"S": S, "O": O, "sol": sol, "lab": 0, "orient": rng.choice("VH"), "sizes2": sizes,
            "params2": c13.rand_params2(rng) if rng.random() < 0.5 else None}
    if "params2" in case and case["params2"] is None:
        del case["params2"]
    r = impl14(case)
    viol, known = geometry_findings(case, r)
    return case, r, (viol[0] if viol else None)


def _mirror(S):
    return 0 if S == 0 else [_mirror(S[1]), _mirror(S[0])]


def _one_gene_per_species(S, p=""):
    if S == 0:
        return {"sp": p, "syn": []}
    return [_one_gene_per_species(S[0], p + "0"), _one_gene_per_species(S[1], p + "1")]


def _lca_solution(S, p=""):
    if S == 0:
        return p
    return [p, _lca_solution(S[0], p + "0"), _lca_solution(S[1], p + "1")]


def search(ctx):
    """the tie is broken but no clause fails on the generated cases: fresh larger layouts, in parallel, for a time budget"""
    import multiprocessing as mp
    import time
    from .. import core
    t0 = time.time()
    budget = 150 if ctx.quick() else 900
    n = 0
    with mp.get_context("fork").Pool(core.NPROC) as pool:
        while time.time() - t0 < budget:
            seeds = [ctx.rng.randrange(1 << 62) for _ in range(1600)]
            for case, r, why in pool.imap_unordered(_search_one, seeds, chunksize=25):
                n += 1
                ctx.evaluations += 1
                if why is not None:
                    ctx.notes.append(f"failing-input search: violation found after {n} fresh layouts")
                    return Finding("layout", case, r, "(geometric oracle)", False, why)
    ctx.notes.append(f"failing-input search: {n} fresh layouts, none violates a clause")
    return None


def replay_case(payload):
    if payload.get("batch") == "deep_tree":
        ok, why = deep_layout_verdict(payload["case"]["leaves"], payload["case"]["orient"])
        return ok, why, {"verdict": why}
    case = payload["case"]
    r = impl14(case)
    viol, known = geometry_findings(case, r)
    return (not viol), (viol[0] if viol else "all clauses hold"), r


def known_signature(finding, entry):
    """F-TRUNK-OVERLAP: the only failing clause is a trunk overlap in which one of the two trunks is not inside its own box."""
    return (entry.get("id") == KNOWN_ID and finding.oracle_ok is False
            and isinstance(finding.detail, str) and finding.detail.startswith(KNOWN_TAG))


def replay_known(ctx, entry):
    if entry.get("id") != KNOWN_ID:
        return False, "unknown entry"
    case = entry.get("witness") or KNOWN_ENTRY["witness"]
    r = impl14(case)
    viol, known = geometry_findings(case, r)
    if viol:
        # the witness now breaks another clause: that is a violation, reported through the findings
        ctx.findings.append(Finding("layout", case, r, "(known-finding witness)", False, viol[0]))
        return False, "witness fails another clause: " + viol[0]
    if known:
        return True, known[0][len(KNOWN_TAG) + 2:]
    return False, "trunks of the witness no longer overlap"


def nontrivial14(case, r):
    if "error" in r:
        return False
    for s in r["layout"]:
        kinds = {d["kind"] for d in s["branches"]}
        if len(s["path"]) < 6 and (kinds & {2, 3}) and any(4 in {d["kind"] for d in t["branches"]} for t in r["layout"]):
            return True
    return False


def batches(ctx):
    del _SEEN[:]
    if getattr(ctx, "replay_case", None) is not None:
        cases, n_small = [ctx.replay_case], 0
    elif ctx.quick():
        cases, n_small = c13.make_cases(ctx, (3, 3), n_mid=45, cap_mid=20, n_rand=300, tag="c14")
    else:
        cases, n_small = c13.make_cases(ctx, (3, 3), n_mid=300, cap_mid=40, n_rand=2500, tag="c14")
    if getattr(ctx, "replay_case", None) is None:
        w = KNOWN_ENTRY["witness"]
        cases = [dict(w), dict(w, orient="H", sizes2=swap_sizes2(w["sizes2"]))] + cases      # the section-9 witness and its mirror image
    kinds = {"V": 0, "H": 0, "default_params": 0}
    for c in cases:
        kinds[c["orient"]] += 1
        kinds["default_params"] += 0 if c.get("params2") else 1
    ctx.dist["c14_variants"] = kinds
    yield Batch(
        name="layout", header=HEADER, run="run14", eqb="eqb14",
        ty_in="bool * params * stree * rtree * list (Q * Q)", ty_out="out14",
        cases=cases, impl=impl14_recorded, observe=observe14, enc_in=enc_in14, enc_out=enc_out14,
        oracle=oracle14, nontrivial=nontrivial14, exhaustive=False, shard=120,
        describe=(f"{n_small} = every valid reconciliation of every input up to 3x3 leaves; all (capped) valid reconciliations of sampled "
                  "4-5 leaf inputs; random ones up to 10 object leaves; both orientations; stub sizes integers/halves in [1,100]; all numeric "
                  "DrawParams perturbed; compared exactly: every species box, trunk, fork thickness, anchor point, branch rectangle and its four "
                  "anchors; the geometric oracle (nesting, disjointness, trunks, anchors, mirror by recomputation, idempotence) runs on every case"),
    )
