"""C18 — subsequence masks and segment distances are exact."""
from __future__ import annotations

import itertools

from ..core import Batch, cN, cZ, cbool, clist, copt, cpair

ID = "C18"
LEVEL = "proof"
PROP_FILE = "Properties/C18.v"
PROOF_FILES = ["Proofs/SubseqProofs.v", "Model/Subseq.v", "Gen/SubseqGen.v", "Proofs/SubseqGenProofs.v"]
TRUSTED = ["translator translator/pyfun.py + the type table in translator/subseq_gen.py (statement-by-statement translation of utils/subsequences.py into Gen/SubseqGen.v, regenerated on every run; proved equal to Model/Subseq.v)",
           "model Model/Subseq.v of utils/subsequences.py (loop on the binary digits of the parent mask), also compared with the code directly"]
ASSUMES = ["Python int bit operations behave as unbounded binary naturals (modelled by Coq N)"]
RULE = ("segment-distance cases: (child, parent, edges) triples, exhaustive up to the tier's bit width plus random wide masks; "
        "non-trivial = child non-empty and contained in parent with at least one lost run; "
        "mask cases: (child subsequence, parent sequence of distinct symbols), non-trivial = child non-empty and shorter than parent")
OPEN_GOALS: list = []

HEADER = "From SR Require Import Model.Subseq.\n"
GEN_HEADER = "From SR Require Import Model.Subseq Gen.SubseqGen.\n"


def pre_build(ctx):
    from translator import subseq_gen
    from .. import core
    changed = subseq_gen.regenerate(core.REPO)
    ctx.notes.append("Gen/SubseqGen.v " + ("regenerated (content changed)" if changed else "regenerated: unchanged"))



def _impl():
    from superrec2.utils import subsequences as S
    return S


# --- independent oracles (straight from the property text) -----------------

def _runs(child: int, parent: int, edges: bool) -> int:
    if child & ~parent:
        return -1
    flags = [bool(child >> i & 1) for i in range(parent.bit_length()) if parent >> i & 1]
    runs = []
    i = 0
    while i < len(flags):
        if not flags[i]:
            j = i
            while j < len(flags) and not flags[j]:
                j += 1
            runs.append((i, j)); i = j
        else:
            i += 1
    if not edges:
        runs = [(a, b) for a, b in runs if a > 0 and b < len(flags)]
    return len(runs)


def batches(ctx):
    S = _impl()
    rng = ctx.rng
    bits = 7 if ctx.quick() else 10

    # 1. segment distance ---------------------------------------------------
    cases = []
    for p in range(1 << bits):
        for c in range(1 << bits):
            for e in (True, False):
                cases.append([c, p, e])
    n_rand = 4000 if ctx.quick() else 60000
    for _ in range(n_rand):
        w = rng.choice([8, 16, 33, 64, 100])
        p = rng.getrandbits(w)
        if rng.random() < 0.7:
            c = p & rng.getrandbits(w)          # mostly contained
            if rng.random() < 0.3:              # long runs
                c &= rng.getrandbits(w)
        else:
            c = rng.getrandbits(rng.choice([w, w + 1, max(1, w - 3)]))
        cases.append([c, p, rng.random() < 0.5])

    def impl(c):
        return S.subseq_segment_dist(c[0], c[1], c[2])

    def oracle(c, r):
        if c[0] == 0:
            return True, "empty child mask is outside the property's domain"
        want = _runs(c[0], c[1], c[2])
        return r == want, f"property demands {want}, implementation returned {r}"

    kinds = {"contained": 0, "not_contained": 0, "empty_child": 0}
    for c in cases:
        if c[0] == 0:
            kinds["empty_child"] += 1
        elif c[0] & ~c[1]:
            kinds["not_contained"] += 1
        else:
            kinds["contained"] += 1
    ctx.dist["seg_dist"] = kinds
    yield Batch(
        name="seg_dist", header=HEADER,
        run="fun '(c, p, e) => seg_dist c p e", eqb="Z.eqb",
        ty_in="N * N * bool", ty_out="Z",
        cases=cases, impl=impl,
        enc_in=lambda c: cpair(cN(c[0]), cN(c[1]), cbool(c[2])),
        enc_out=lambda c, r: cZ(r),
        oracle=oracle,
        nontrivial=lambda c, r: c[0] != 0 and not (c[0] & ~c[1]) and r > 0,
        exhaustive=False, shard=2500,
        describe=f"all (child,parent) masks below 2^{bits} x both end modes, plus {n_rand} random masks up to 100 bits",
    )

    # 2. masks <-> subsequences -------------------------------------------------
    maxlen = 6 if ctx.quick() else 8
    mcases = []
    for n in range(maxlen + 1):
        parent = list(range(n))
        for m in range(1 << n):
            child = [parent[i] for i in range(n) if m >> i & 1]
            mcases.append({"child": child, "parent": parent, "mask": m})
    # permuted / non-subsequence / repeated-element streams (the model must agree there too)
    for _ in range(1500 if ctx.quick() else 20000):
        n = rng.randint(0, 9)
        parent = rng.sample(range(12), n) if rng.random() < 0.8 else [rng.randrange(4) for _ in range(n)]
        k = rng.randint(0, n)
        if rng.random() < 0.7:
            idx = sorted(rng.sample(range(n), k))
            child = [parent[i] for i in idx]
        else:
            child = [rng.randrange(12) for _ in range(k)]
        mcases.append({"child": child, "parent": parent, "mask": rng.getrandbits(rng.randint(0, n + 1))})

    SENTINEL = 1 << 300     # stands for "the call raised": the model never returns it

    # elements need only support ==: in every second case the numbers stand for arbitrary Python values
    EX = [0, None, "", (), "a", 2.5, ("x", 1), frozenset(), b"", -1, 10 ** 20, "None"]

    def ex(c, x):
        return EX[x] if c["mask"] % 2 == 1 and x < len(EX) else x

    def unex(c, y):
        if c["mask"] % 2 == 1:
            for i, e in enumerate(EX):
                if type(e) is type(y) and e == y:
                    return i
        return y

    def impl_m(c):
        c = dict(c, parent=[ex(c, x) for x in c["parent"]], child=[ex(c, x) for x in c["child"]], _orig=c)
        r = impl_m0(c)
        if r["from_mask"] is not None:
            r["from_mask"] = [unex(c, y) for y in r["from_mask"]]
            r["from_mask"] = [y if isinstance(y, int) and not isinstance(y, bool) and y >= 0 else 10 ** 30 for y in r["from_mask"]]
        return r

    def impl_m0(c):
        # history independence: the very list object handed to the functions was used before, in another
        # order, and re-ordered in place (every third case); answers must depend on its content now
        parent = list(c["parent"])
        if c["mask"] % 3 == 0 and len(parent) >= 2:
            parent.reverse()
            try:
                S.mask_from_subseq(list(reversed(c["child"])), parent)
                S.subseq_from_mask(c["mask"], parent)
            except Exception:  # noqa: BLE001 - the priming calls are not judged
                pass
            parent.reverse()
        try:
            m = S.mask_from_subseq(c["child"], parent)
        except Exception as e:  # noqa: BLE001
            m = "exc:" + type(e).__name__
        try:
            back = S.subseq_from_mask(c["mask"], parent)
            if not isinstance(back, list):
                back = ["!not-a-list"]
        except IndexError:
            back = None
        except Exception as e:  # noqa: BLE001 - any other exception is an answer the model never gives
            back = ["!" + type(e).__name__]
        return {"mask": m, "from_mask": back, "complete": S.subseq_complete(parent)}

    def mask_lit(r):
        return cN(r["mask"] if isinstance(r["mask"], int) else SENTINEL)

    def is_subseq(ch, pa):
        it = iter(pa)
        return all(x in it for x in ch)

    def oracle_m(c, r):
        pa, ch = c["parent"], c["child"]
        if len(set(pa)) != len(pa):
            return True, "parent has repeated elements: outside the property's domain"
        if not isinstance(r["mask"], int) and is_subseq(ch, pa):
            return False, f"mask_from_subseq raised {r['mask']} on a subsequence of its parent"
        if is_subseq(ch, pa):
            want = sum(1 << pa.index(x) for x in ch)
            if r["mask"] != want:
                return False, f"mask of subsequence should be {want}, got {r['mask']}"
        if c["mask"] < (1 << len(pa)):
            want = [pa[i] for i in range(len(pa)) if c["mask"] >> i & 1]
            if r["from_mask"] != want:
                return False, f"subsequence of mask should be {want}, got {r['from_mask']}"
        if r["complete"] != (1 << len(pa)) - 1:
            return False, "complete mask wrong"
        return True, "round trips hold on this case"

    yield Batch(
        name="masks", header=HEADER,
        run="fun '(ch, pa, m) => (mask_from_subseq N.eqb ch pa, subseq_from_mask m pa, subseq_complete pa)",
        eqb="fun a b => let '(m1, o1, k1) := a in let '(m2, o2, k2) := b in N.eqb m1 m2 && N.eqb k1 k2 && "
            "match o1, o2 with None, None => true | Some x, Some y => if list_eq_dec N.eq_dec x y then true else false | _, _ => false end",
        ty_in="list N * list N * N", ty_out="N * option (list N) * N",
        cases=mcases, impl=impl_m,
        enc_in=lambda c: cpair(clist(map(cN, c["child"])), clist(map(cN, c["parent"])), cN(c["mask"])),
        enc_out=lambda c, r: cpair(mask_lit(r), copt(None if r["from_mask"] is None else clist(map(cN, r["from_mask"]))), cN(r["complete"])),
        oracle=oracle_m,
        nontrivial=lambda c, r: 0 < len(c["child"]) < len(c["parent"]),
        exhaustive=False, shard=4000,
        describe=f"every subsequence of every sequence of distinct symbols up to length {maxlen}, plus random (also malformed) streams",
    )

    # 3. the generated functions themselves against the code (checks the translator, not the model)
    gcases = [c for c in mcases if True][: (3000 if ctx.quick() else 30000)]

    def impl_g(c):
        r = impl_m(c)
        sd = S.subseq_segment_dist(c["mask"], r["mask"] | c["mask"], len(c["child"]) % 2 == 0) if isinstance(r["mask"], int) else 0
        return {**r, "sd": sd}

    yield Batch(
        name="generated", header=GEN_HEADER,
        run="fun '(ch, pa, m) => (gen_mask_from_subseq N.eqb ch pa, gen_subseq_from_mask m pa, gen_subseq_complete pa, "
            "match gen_mask_from_subseq N.eqb ch pa with Ok k => gen_subseq_segment_dist m (N.lor k m) (Nat.even (length ch)) | Err e => Err e end)",
        eqb="fun a b => let '(m1, o1, k1, d1) := a in let '(m2, o2, k2, d2) := b in "
            "match m1, m2 with Ok x, Ok y => N.eqb x y | _, _ => false end && "
            "match k1, k2 with Ok x, Ok y => Z.eqb x y | _, _ => false end && "
            "match d1, d2 with Ok x, Ok y => Z.eqb x y | _, _ => false end && "
            "match o1, o2 with Err IndexError, Err IndexError => true | Ok x, Ok y => if list_eq_dec N.eq_dec x y then true else false | _, _ => false end",
        ty_in="list N * list N * N", ty_out="res N * res (list N) * res Z * res Z",
        cases=gcases, impl=impl_g,
        enc_in=lambda c: cpair(clist(map(cN, c["child"])), clist(map(cN, c["parent"])), cN(c["mask"])),
        enc_out=lambda c, r: "(" + ", ".join(["Ok " + mask_lit(r),
                                              "Err IndexError" if r["from_mask"] is None else "Ok " + clist(map(cN, r["from_mask"])),
                                              "Ok " + cZ(r["complete"]), "Ok " + cZ(r["sd"])]) + ")",
        oracle=oracle_m,
        nontrivial=lambda c, r: 0 < len(c["child"]) < len(c["parent"]),
        exhaustive=False, shard=1500,
        describe="the functions of the regenerated Gen/SubseqGen.v (translation of the current source) evaluated on the same mask cases, "
                 "plus subseq_segment_dist(mask, mask_from_subseq(child) | mask, edges)",
    )

TECHNIQUE = "Coq proof (induction on binary digits / lists) of model = specification; the model is tied to the code twice: a translator regenerates Gen/SubseqGen.v from utils/subsequences.py on every run and Coq proves generated = model for all inputs; plus exhaustive small-domain + random correspondence evaluated with vm_compute"
LEVEL_TEXT = ("Machine-checked theorems: for every non-empty child mask seg_dist equals the run-count specification (all widths), "
              "-1 iff not contained; both mask round trips and the complete mask, for sequences of any length. "
              "The four functions of utils/subsequences.py are translated statement by statement into Gallina on every run and proved equal to the model (errors and loop fuel included), so a semantic edit of that file breaks a proof obligation. "
              "The Gallina model is also compared with utils/subsequences.py on every (child,parent) pair below 2^7 (quick) / 2^10 (thorough), both end modes, "
              "all subsequences of sequences up to length 6/8 and random wide masks.")
LEVEL_NOTE = ("Trusted: Coq kernel; the translator (pyfun.py: Python subset -> Gallina, fail-closed, with a declared type table) and the hand-written model (correspondence is differential testing on the explored domain, not proof); "
              "Python ints behave as unbounded naturals. All theorems closed under the global context (no axioms).")
