"""C11 — serialised results read back to the same reconciliation."""
from __future__ import annotations

import json
import os

from ..core import Batch, cZ, cbool, clist, cnat, copt, cpair, cstr

ID = "C11"
LEVEL = "proof"
PROP_FILE = "Properties/C11.v"
PROOF_FILES = ["Proofs/C11EvalProofs.v", "Proofs/ReconProofs.v", "Model/CliRun.v", "Model/Recon.v", "Proofs/SerialProofs.v", "Proofs/NewickProofs.v", "Model/Serial.v", "Model/Newick.v", "Base/Ext.v"]
TRUSTED = [
    "model Model/Serial.v of to_dict/_from_dict/from_dict (four classes), parse/serialize_tree_mapping, parse/serialize_synteny_mapping, sort_synteny: "
    "nodes as root paths, dicts as item lists in insertion order, `tree & name` as first match in level order",
    "model Model/Newick.v: Gallina printer mirroring ete3 write(format=8, format_root_node=True, features=['color']) and a recursive-descent reader of that output language "
    "(compared string-for-string / tree-for-tree with ete3 on every case)",
    "evaluator glue of Model/CliRun.v (eval_routput, eval_soutput, eval_result, to_rtree, to_ltree, own_num over Recon.cost / Recon.total_cost) and output_events "
    "(Proofs/C11EvalProofs.v) as the model of ReconciliationOutput.cost / SuperReconciliationOutput.cost / node_event on binary object trees with integer unit costs "
    "(transfer cost possibly infinite) - compared with the real classes on every case of the evaluator batch",
]
ASSUMES = [
    "json.dumps/json.loads are the identity on to_dict() output (ints, float inf, strings, lists, booleans, ordered string-keyed dicts) - sampled on every case",
    "ete3's writer (format 8 + color feature) and reader (format 1) coincide with Newick.print_tree / Newick.parse_tree on trees named over [A-Za-z0-9_] - sampled on every case, string for string",
    "`tree & name` returns the first node of ete3's level-order traversal carrying that name",
    "Python set iteration order is handed to the model as an explicit list (the theorems hold for every order)",
]
RULE = ("objects of the four classes built from JSON descriptions: random binary object/species trees up to 8 leaves (inputs also with polytomies and unary nodes), "
        "unique random names over [A-Za-z0-9_] incl. digit-only/NoName/prefix pairs, NHX colours on a random subset of nodes (also the empty colour), "
        "cost vectors over {0..3} with float('inf') (sometimes -inf) transfer cost and shuffled key order, leaf assignment and mapping items in shuffled order; "
        "species mappings from reconcile_lca, reconcile_thl(ALL), sreconcile_extended_spfs(ALL), usreconcile_extended_uspfs(ALL) and random LCA-lifted valid mappings; "
        "labellings from the solvers and random top-down sub-sequence labellings with list/tuple/str/set values (sets with natural-sort key ties); "
        "each goes through to_dict -> json.dumps -> json.loads -> from_dict -> to_dict. non-trivial = at least 3 object leaves and (a colour, an infinite cost, "
        "a set-valued synteny or a non-leaf mapping item); evaluator cases: the same output objects, a third of the transfer-using solver outputs again with an infinite "
        "transfer cost, half of the random ones again with one internal node moved to a random species; non-trivial = parses back and at least two internal object nodes")
OPEN_GOALS: list = []
TECHNIQUE = ("Coq proof of the round-trip theorems of the dictionary layer (name lookup inverts .name under NoDup names; dict comprehension = item list under distinct keys; "
             "stable insertion sort is a permutation) and of parse_tree (print_tree t) = Some t for the concrete Gallina Newick printer/parser (nested induction on trees, "
             "proved fuel bound); model and printer/parser tied to the code and to ete3 by differential testing evaluated with vm_compute")
LEVEL_TEXT = ("'Same events and cost after the round trip' is a theorem about the evaluator model (C11_same_events_and_cost_plain/_super: eval_routput/eval_soutput and the event list, for plain outputs, ordered outputs with sequences and all unordered outputs under any family numbering; ordered outputs holding sets are outside the domain, kernel-checked counter-example C11_ordered_sets_outside_domain). Machine-checked for trees of any size and arity: mapping_roundtrip, synteny_roundtrip (lists verbatim, sets through sort_synteny = a permutation), "
              "costs round trip, input_roundtrip (both input classes), output_roundtrip (both output classes: trees, leaf assignment, costs, species mapping, labelling, ordered flag; "
              "the nested input is re-read as a plain ReconciliationInput, its leaf syntenies are dropped - stated, not hidden), reserialise_fixpoint on those fields, "
              "and newick_roundtrip for the concrete printer/parser on names/colours over [A-Za-z0-9_]. "
              "The model is compared with the implementation (through real json and real ete3) on every generated case: dictionaries item by item, Newick strings character by character, "
              "re-read objects path by path, re-serialised dictionaries, plus equality of node events and cost() before/after; the evaluator model in which the events-and-cost theorem "
              "is stated (eval_result under own_num, output_events) is compared exactly with cost() / node_event on the object as built and on the re-read object (batch evaluator).")
LEVEL_NOTE = ("The theorems in Properties/C11.v are closed under the global context. In Proofs/SerialProofs.v ete3's writer/reader are Section variables with the hypothesis "
              "`read (write t) = Some t` on well-named trees; after the section is closed that hypothesis is an explicit premise of every SerialProofs theorem. "
              "Properties/C11.v instantiates write/read with the Gallina printer/parser and discharges the premise with the proved newick_roundtrip, so no hypothesis about ete3 remains "
              "in the statements; what remains *trusted, sampled only* is that ete3's write/read equal that printer/parser (string-for-string comparison on every case), "
              "that json is the identity on these dictionaries, the level-order `&` lookup, and the hand-written model itself. "
              "'Hence the same events and cost' is a theorem about the evaluator model (C11_same_events_and_cost_plain/_super): the C06 evaluator (Recon.cost / Recon.total_cost) reached "
              "through the glue of Model/CliRun.v (eval_routput, eval_soutput, to_rtree, to_ltree) and the event list output_events of Proofs/C11EvalProofs.v. That this evaluator model "
              "computes what cost() and node_event of the real classes compute is *sampled, not proved*: batch `evaluator` compares both exactly, before and after the round trip "
              "(finite and infinite totals, transfers with their side, INVALID nodes, cost() raising); the RO/SO batches also compare node_event/cost() of the implementation alone "
              "before/after. Unordered syntenies given as Python sets come back as sorted lists (same set), which the theorem states explicitly.")

ALPHABET = "abcdefghijklmnopqrstuvwxyzABCDEFGHIJKLMNOPQRSTUVWXYZ0123456789_"
EVS = ["LEAF", "INVALID", "SPECIATION", "DUPLICATION", "HORIZONTAL_TRANSFER", "FULL_LOSS", "SEGMENTAL_LOSS"]
COST_EVS = ["SPECIATION", "DUPLICATION", "HORIZONTAL_TRANSFER", "FULL_LOSS", "SEGMENTAL_LOSS"]

HEADER = """From Coq Require Import String Ascii.
From SR Require Import Base.Ext Model.Newick Model.Serial.
Fixpoint list_eqb {A} (f : A -> A -> bool) (a b : list A) : bool :=
  match a, b with [], [] => true | x :: a', y :: b' => f x y && list_eqb f a' b' | _, _ => false end.
Definition pair_eqb {A B} (f : A -> A -> bool) (g : B -> B -> bool) (a b : A * B) : bool := f (fst a) (fst b) && g (snd a) (snd b).
Definition path_eqb := list_eqb Nat.eqb.
Definition tmap_eqb := list_eqb (pair_eqb path_eqb path_eqb).
Definition strs_eqb := list_eqb String.eqb.
Definition sdict_eqb := list_eqb (pair_eqb String.eqb String.eqb).
Definition ldict_eqb := list_eqb (pair_eqb String.eqb strs_eqb).
Definition cdict_eqb := list_eqb (pair_eqb String.eqb ext_eqb).
Definition ev_eqb (a b : ev) : bool := String.eqb (ev_name a) (ev_name b).
Definition costs_eqb := list_eqb (pair_eqb ev_eqb ext_eqb).
Definition syn_eqb (a b : syn) : bool :=
  match a, b with SList x, SList y => strs_eqb x y | SSet x, SSet y => strs_eqb x y | _, _ => false end.
Definition smap_eqb := list_eqb (pair_eqb path_eqb syn_eqb).
Definition ri_eqb (a b : rinput) : bool :=
  tree_eqb (otree a) (otree b) && tree_eqb (stree a) (stree b) && tmap_eqb (leafmap a) (leafmap b) && costs_eqb (costs a) (costs b).
Definition si_eqb (a b : sinput) : bool := ri_eqb (s_base a) (s_base b) && smap_eqb (leafsyn a) (leafsyn b).
Definition ai_eqb (a b : any_input) : bool :=
  match a, b with Plain x, Plain y => ri_eqb x y | Super x, Super y => si_eqb x y | _, _ => false end.
Definition ro_eqb (a b : routput) : bool := ai_eqb (r_in a) (r_in b) && tmap_eqb (omap a) (omap b).
Definition so_eqb (a b : soutput) : bool := ro_eqb (s_out a) (s_out b) && smap_eqb (syns a) (syns b) && Bool.eqb (ordered a) (ordered b).
Definition dri_eqb (a b : drinput) : bool :=
  String.eqb (d_otree a) (d_otree b) && String.eqb (d_stree a) (d_stree b) && sdict_eqb (d_leafmap a) (d_leafmap b) && cdict_eqb (d_costs a) (d_costs b).
Definition di_eqb (a b : dinput) : bool := dri_eqb (d_base a) (d_base b) && opt_eqb ldict_eqb (d_leafsyn a) (d_leafsyn b).
Definition dro_eqb (a b : droutput) : bool := di_eqb (d_in a) (d_in b) && sdict_eqb (d_omap a) (d_omap b).
Definition dso_eqb (a b : dsoutput) : bool := dro_eqb (d_out a) (d_out b) && ldict_eqb (d_syns a) (d_syns b) && opt_eqb Bool.eqb (d_ordered a) (d_ordered b).
Definition res_eqb {D X} (fd : D -> D -> bool) (fx : X -> X -> bool) (a b : option D * option X * option D * bool) : bool :=
  let '(d1, x1, r1, f1) := a in let '(d2, x2, r2, f2) := b in
  opt_eqb fd d1 d2 && opt_eqb fx x1 x2 && opt_eqb fd r1 r2 && Bool.eqb f1 f2.
Definition W := print_tree.
Definition R := parse_tree.
Definition bind {A B} (o : option A) (f : A -> option B) : option B := match o with Some a => f a | None => None end.
(* to_dict -> (json = identity) -> from_dict -> to_dict; the last component is the model's
   prediction for "json is the identity here and node events / cost() are unchanged" *)
Definition run_ri (x : rinput) :=
  let d := option_map (fun b => mkDI b None) (rinput_to_dict W x) in
  let b := bind d (rinput_from_dict R) in
  (d, b, bind b (fun y => option_map (fun b => mkDI b None) (rinput_to_dict W y)), true).
Definition run_si (x : sinput) :=
  let d := sinput_to_dict W x in
  let b := bind d (sinput_from_dict R) in
  (d, b, bind b (sinput_to_dict W), true).
Definition run_ro (x : routput) :=
  let d := routput_to_dict W x in
  let b := bind d (routput_from_dict R) in
  (d, b, bind b (routput_to_dict W), true).
Definition run_so (x : soutput) :=
  let d := soutput_to_dict W x in
  let b := bind d (soutput_from_dict R) in
  (d, b, bind b (soutput_to_dict W), true).
"""


# ---------------------------------------------------------------------------
# implementation side

def _mods():
    os.environ["TQDM_DISABLE"] = "1"
    import ete3
    from superrec2.model import reconciliation as M
    from superrec2.model import synteny as Y
    from superrec2.utils.trees import LowestCommonAncestor
    return ete3, M, Y, LowestCommonAncestor


def build_tree(ete3, t, node=None):
    """nested [name, colour|None, kids] -> ete3 tree, built programmatically (no Newick reader involved)"""
    node = ete3.Tree() if node is None else node
    node.name = t[0]
    if t[1] is not None:
        node.add_feature("color", t[1])
    for k in t[2]:
        build_tree(ete3, k, node.add_child())
    return node


def nested(node):
    return [node.name, getattr(node, "color", None), [nested(k) for k in node.children]]


def node_at(root, p):
    n = root
    for i in p:
        n = n.children[i]
    return n


def path_of(root, n):
    p = []
    while n is not root:
        if n.up is None:
            return None           # not a node of this tree
        p.append([k is n for k in n.up.children].index(True))
        n = n.up
    return p[::-1]


def py_val(v):
    return float("inf") if v == "inf" else (float("-inf") if v == "-inf" else v)


def un_val(v):
    if isinstance(v, float) and v == float("inf"):
        return "inf"
    if isinstance(v, float) and v == float("-inf"):
        return "-inf"
    if isinstance(v, bool) or not isinstance(v, int):
        return "BAD:" + repr(v)
    return v


def mk_syn(s):
    """[kind, items, (recorded set order)] -> python value; records the iteration order of sets"""
    kind, items = s[0], s[1]
    if kind == "set":
        v = set(items)
        if len(s) < 3:
            s.append(None)
        s[2] = list(v)
        return v
    if kind == "tuple":
        return tuple(items)
    if kind == "str":
        return "".join(items)
    return list(items)


def make_object(c):
    ete3, M, Y, LCA = _mods()
    EV = {**M.NodeEvent.__members__, **M.EdgeEvent.__members__}
    O, S = build_tree(ete3, c["O"]), build_tree(ete3, c["S"])
    lm = {node_at(O, p): node_at(S, q) for p, q in c["leafmap"]}
    costs = {EV[k]: py_val(v) for k, v in c["costs"]}
    if c["leafsyn"] is not None:
        inp = M.SuperReconciliationInput(O, LCA(S), lm, costs, {node_at(O, p): mk_syn(s) for p, s in c["leafsyn"]})
    else:
        inp = M.ReconciliationInput(O, LCA(S), lm, costs)
    kind = c["kind"]
    if kind in ("RI", "SI"):
        return inp
    om = {node_at(O, p): node_at(S, q) for p, q in c["omap"]}
    if kind == "RO":
        return M.ReconciliationOutput(inp, om)
    return M.SuperReconciliationOutput(inp, om, {node_at(O, p): mk_syn(s) for p, s in c["syns"]}, c["ordered"])


def canon_dict_input(d):
    return {
        "object_tree": d["object_tree"], "species_tree": d["species_tree"],
        "leaf_object_species": [[k, v] for k, v in d["leaf_object_species"].items()],
        "costs": [[k, un_val(v)] for k, v in d["costs"].items()],
        "leaf_syntenies": None if "leaf_syntenies" not in d else [[k, list(v)] for k, v in d["leaf_syntenies"].items()],
    }


def canon_dict(kind, d):
    if kind in ("RI", "SI"):
        return canon_dict_input(d)
    out = {"input": canon_dict_input(d["input"]), "object_species": [[k, v] for k, v in d["object_species"].items()]}
    if kind == "SO":
        out["syntenies"] = [[k, list(v)] for k, v in d["syntenies"].items()]
        out["ordered"] = d.get("ordered")
    return out


def syn_kind(v):
    return "set" if isinstance(v, (set, frozenset)) else "tuple" if isinstance(v, tuple) else "str" if isinstance(v, str) else "list"


def canon_input(M, x):
    O, S = x.object_tree, x.species_lca.tree
    out = {
        "O": nested(O), "S": nested(S),
        "leafmap": [[path_of(O, a), path_of(S, b)] for a, b in x.leaf_object_species.items()],
        "costs": [[e.name, un_val(v)] for e, v in x.costs.items()],
        "super": isinstance(x, M.SuperReconciliationInput),
        "leafsyn": None,
    }
    if out["super"]:
        out["leafsyn"] = [[path_of(O, a), [syn_kind(v), list(v)]] for a, v in x.leaf_syntenies.items()]
    return out


def canon_object(M, kind, x):
    if kind in ("RI", "SI"):
        return canon_input(M, x)
    O, S = x.input.object_tree, x.input.species_lca.tree
    out = {"input": canon_input(M, x.input), "omap": [[path_of(O, a), path_of(S, b)] for a, b in x.object_species.items()]}
    if kind == "SO":
        out["syns"] = [[path_of(O, a), [syn_kind(v), list(v)]] for a, v in x.syntenies.items()]
        out["ordered"] = x.ordered
    return out


def events_cost(kind, x):
    """node events in pre-order and cost(); exceptions are part of the observation"""
    if kind in ("RI", "SI"):
        return None
    try:
        evs = [x.node_event(n).name for n in x.input.object_tree.traverse("preorder")]
        cost = x.cost()
        lab = [x.reconciliation_cost(), x.labeling_cost()] if kind == "SO" else None
        fl = lambda v: "inf" if v == float("inf") else ("-inf" if v == float("-inf") else v)
        return [evs, fl(cost), None if lab is None else [fl(v) for v in lab]]
    except Exception as e:  # noqa: BLE001 - recorded, compared before/after
        return "EXC:" + type(e).__name__


def _prime_serial(x):
    """history independence: the same objects are serialised once while every node carries another name and
    another colour, then names and colours are put back in place; what the package remembers from that first
    serialisation must not leak into the one observed."""
    inp = getattr(x, "input", x)
    saved = []
    for t in (inp.object_tree, inp.species_lca.tree):
        for n in t.traverse():
            saved.append((n, n.name, "color" in n.features, getattr(n, "color", None)))
            n.name = (n.name or "") + "q"
            n.add_feature("color", "tmp")
    try:
        x.to_dict()
        repr(x)
    except Exception:  # noqa: BLE001 - the priming serialisation is not judged
        pass
    for n, name, had, col in saved:
        n.name = name
        if had:
            n.add_feature("color", col)
        else:
            n.del_feature("color")


def impl(c):
    ete3, M, Y, LCA = _mods()
    from ete3.parser.newick import NewickError
    from ete3.coretype.tree import TreeError
    kind = c["kind"]
    cls = {"RI": M.ReconciliationInput, "SI": M.SuperReconciliationInput,
           "RO": M.ReconciliationOutput, "SO": M.SuperReconciliationOutput}[kind]
    x = make_object(c)
    if len(json.dumps(c)) % 3 == 0:
        _prime_serial(x)
    d = x.to_dict()
    res = {"dict": canon_dict(kind, d), "back": None, "redict": None, "flags": None, "error": None}
    d2 = json.loads(json.dumps(d))
    json_same = d2 == d and json.dumps(d2) == json.dumps(d)
    try:
        x2 = cls.from_dict(d2)
    except (TreeError, NewickError, KeyError, AttributeError) as e:
        res["error"] = type(e).__name__
        res["flags"] = json_same
        return res
    res["back"] = canon_object(M, kind, x2)
    res["redict"] = canon_dict(kind, x2.to_dict())
    res["flags"] = bool(json_same and events_cost(kind, x) == events_cost(kind, x2))
    res["events_before"] = events_cost(kind, x)
    res["events_after"] = events_cost(kind, x2)
    return res


# ---------------------------------------------------------------------------
# batch `evaluator`: the evaluator glue in which C11_same_events_and_cost_* are stated (Model/CliRun.v: eval_routput,
# eval_soutput, to_rtree, to_ltree, own_num; Proofs/C11EvalProofs.v: output_events) against cost() / node_event of the
# real classes, on the object as built and on the object read back from its JSON form

EVAL_HEADER = HEADER + """From SR Require Model.Recon Model.CliRun Proofs.ReconProofs Proofs.C11EvalProofs.
Definition rev_eqb (a b : Recon.ev) : bool :=
  match a, b with
  | Recon.Spe, Recon.Spe | Recon.Dup, Recon.Dup | Recon.TrL, Recon.TrL | Recon.TrR, Recon.TrR | Recon.Inv, Recon.Inv => true
  | _, _ => false
  end.
Definition routput_of (r : routput + soutput) : routput := match r with inl x => x | inr x => s_out x end.
(* cost(): None = it raises; the node events of the internal object nodes in pre-order: None = node_event raises *)
Definition ev_cost (r : routput + soutput) : option ext * option (list Recon.ev) :=
  (CliRun.eval_result (CliRun.own_num r) r, C11EvalProofs.output_events (routput_of r)).
Definition back_of (r : routput + soutput) : option (routput + soutput) :=
  match r with
  | inl x => option_map inl (bind (routput_to_dict W x) (routput_from_dict R))
  | inr x => option_map inr (bind (soutput_to_dict W x) (soutput_from_dict R))
  end.
(* before the round trip, after it (None: the serialised form does not parse back), "the numbers are integers or infinities" *)
Definition eval_out := ((option ext * option (list Recon.ev)) * option (option ext * option (list Recon.ev)) * bool)%type.
Definition run_eval (r : routput + soutput) : eval_out := (ev_cost r, option_map ev_cost (back_of r), true).
Definition evc_eqb := pair_eqb (opt_eqb ext_eqb) (opt_eqb (list_eqb rev_eqb)).
Definition eval_eqb (a b : eval_out) : bool :=
  let '(x1, y1, f1) := a in let '(x2, y2, f2) := b in evc_eqb x1 x2 && opt_eqb evc_eqb y1 y2 && Bool.eqb f1 f2.
"""

EVAL_EV = {"SPECIATION": "Recon.Spe", "DUPLICATION": "Recon.Dup", "TRANSFER_KEEP_LEFT": "Recon.TrL",
           "TRANSFER_KEEP_RIGHT": "Recon.TrR", "INVALID": "Recon.Inv"}


def eval_observation(x):
    """cost() and node_event of every internal object node in pre-order, of a (Super)ReconciliationOutput"""
    out = {}
    try:
        v = x.cost()
        if isinstance(v, int) and not isinstance(v, bool):
            out["cost"] = v
        elif not isinstance(v, bool) and (v == float("inf") or v == float("-inf")):      # a float, or the `infinity` package's object
            out["cost"] = "inf" if v == float("inf") else "-inf"
        else:
            out["cost"] = "odd:" + repr(v)           # a float where every unit cost is an integer or inf, nan ...
    except Exception as e:  # noqa: BLE001 - part of the observation
        out["cost"] = "exc:" + type(e).__name__
    try:
        evs = []
        rec, lca = x.object_species, x.input.species_lca
        for node in x.input.object_tree.traverse("preorder"):
            if node.is_leaf():
                continue
            e = x.node_event(node).name
            if e == "HORIZONTAL_TRANSFER":
                # the child that stays in the lineage, as _cost_rec decides it (dist_conserved)
                e = "TRANSFER_KEEP_LEFT" if lca.is_ancestor_of(rec[node], rec[node.children[0]]) else "TRANSFER_KEEP_RIGHT"
            evs.append(e)
        out["events"] = evs
    except Exception as e:  # noqa: BLE001
        out["events"] = "exc:" + type(e).__name__
    return out


def impl_eval(c):
    ete3, M, Y, LCA = _mods()
    cls = {"RO": M.ReconciliationOutput, "SO": M.SuperReconciliationOutput}[c["kind"]]
    x = make_object(c)
    res = {"before": eval_observation(x), "after": None, "error": None}
    try:
        x2 = cls.from_dict(json.loads(json.dumps(x.to_dict())))
    except Exception as e:  # noqa: BLE001
        res["error"] = type(e).__name__
        return res
    res["after"] = eval_observation(x2)
    return res


def _enc_observation(o):
    """(Gallina literal of option ext * option (list Recon.ev), expressible?)"""
    ok = True
    v = o["cost"]
    if isinstance(v, int) and not isinstance(v, bool):
        cost = f"(Some (Fin {cZ(v)}))"
    elif v in ("inf", "-inf"):
        cost = "(Some PInf)" if v == "inf" else "(Some NInf)"
    elif isinstance(v, str) and v.startswith("exc:"):
        cost = "None"
    else:
        cost, ok = "None", False
    evs = o["events"]
    if isinstance(evs, list) and all(e in EVAL_EV for e in evs):
        events = "(Some " + clist(EVAL_EV[e] for e in evs) + ")"
    elif isinstance(evs, str):
        events = "None"
    else:
        events, ok = "None", False
    return f"({cost}, {events})", ok


def enc_eval_in(c):
    return ("(inl " if c["kind"] == "RO" else "(inr ") + enc_in(c) + ")"


def enc_eval_out(c, r):
    b, ok1 = _enc_observation(r["before"])
    if r["after"] is None:
        return cpair(b, "None", cbool(ok1))
    a, ok2 = _enc_observation(r["after"])
    return cpair(b, f"(Some {a})", cbool(ok1 and ok2))


def oracle_eval(c, r):
    """property text: ... parsing it back yields ..., hence the same events and cost"""
    ok, why = in_domain(c)
    if not ok:
        return True, "outside the property's domain: " + why
    if r["after"] is None:
        return False, f"the serialised form does not parse back ({r['error']})"
    if r["after"] != r["before"]:
        return False, f"node events / cost() differ after the round trip: before={r['before']} after={r['after']}"
    return True, "same node events and the same cost before and after the round trip"


# ---------------------------------------------------------------------------
# Gallina literals

def enc_tree(t):
    return f"(Node {cstr(t[0])} {copt(None if t[1] is None else cstr(t[1]))} {clist(enc_tree(k) for k in t[2])})"


def enc_path(p):
    # None: the parsed object refers to a node that is not in the tree it should belong to (e.g. a node of the OTHER tree);
    # a path no tree has, so that the comparison with the model fails and the oracle judges the case
    return clist(cnat(i) for i in (p if p is not None else [999, 999]))


def enc_tmap(m):
    return clist(cpair(enc_path(p), enc_path(q)) for p, q in m)


def enc_ext(v):
    return "PInf" if v == "inf" else ("NInf" if v == "-inf" else f"(Fin {cZ(v)})")


def enc_costs(cs):
    return clist(cpair(k, enc_ext(v)) for k, v in cs)


def enc_syn(s, as_model_input):
    kind, items = s[0], s[1]
    if kind == "set":
        order = s[2] if as_model_input and len(s) > 2 and s[2] is not None else items
        return f"(SSet {clist(cstr(x) for x in order)})"
    return f"(SList {clist(cstr(x) for x in items)})"


def enc_smap(m, as_model_input):
    return clist(cpair(enc_path(p), enc_syn(s, as_model_input)) for p, s in m)


def enc_ri(c):
    return f"(mkRI {enc_tree(c['O'])} {enc_tree(c['S'])} {enc_tmap(c['leafmap'])} {enc_costs(c['costs'])})"


def enc_any_input(c, as_model_input=True):
    if c["leafsyn"] is None:
        return f"(Plain {enc_ri(c)})"
    return f"(Super (mkSI {enc_ri(c)} {enc_smap(c['leafsyn'], as_model_input)}))"


def enc_in(c):
    kind = c["kind"]
    if kind == "RI":
        return enc_ri(c)
    if kind == "SI":
        return f"(mkSI {enc_ri(c)} {enc_smap(c['leafsyn'], True)})"
    ro = f"(mkRO {enc_any_input(c)} {enc_tmap(c['omap'])})"
    if kind == "RO":
        return ro
    return f"(mkSO {ro} {enc_smap(c['syns'], True)} {cbool(c['ordered'])})"


def enc_sdict(d):
    return clist(cpair(cstr(k), cstr(v)) for k, v in d)


def enc_ldict(d):
    return clist(cpair(cstr(k), clist(cstr(x) for x in v)) for k, v in d)


def enc_dinput(d):
    costs = clist(cpair(cstr(k), enc_ext(v)) for k, v in d["costs"])
    base = f"(mkDRI {cstr(d['object_tree'])} {cstr(d['species_tree'])} {enc_sdict(d['leaf_object_species'])} {costs})"
    return f"(mkDI {base} {copt(None if d['leaf_syntenies'] is None else enc_ldict(d['leaf_syntenies']))})"


def enc_dict(kind, d):
    if d is None:
        return "None"
    if kind in ("RI", "SI"):
        return f"(Some {enc_dinput(d)})"
    dro = f"(mkDRO {enc_dinput(d['input'])} {enc_sdict(d['object_species'])})"
    if kind == "RO":
        return f"(Some {dro})"
    return f"(Some (mkDSO {dro} {enc_ldict(d['syntenies'])} {copt(None if d['ordered'] is None else cbool(d['ordered']))}))"


def _obj_as_case(o):
    return {"O": o["O"], "S": o["S"], "leafmap": o["leafmap"], "costs": o["costs"], "leafsyn": o["leafsyn"]}


def enc_back(kind, b):
    if b is None:
        return "None"
    if kind == "RI":
        return f"(Some {enc_ri(_obj_as_case(b))})"
    if kind == "SI":
        if b["leafsyn"] is None:
            return "None"
        return f"(Some (mkSI {enc_ri(_obj_as_case(b))} {enc_smap(b['leafsyn'], False)}))"
    ro = f"(mkRO {enc_any_input(_obj_as_case(b['input']), False)} {enc_tmap(b['omap'])})"
    if kind == "RO":
        return f"(Some {ro})"
    return f"(Some (mkSO {ro} {enc_smap(b['syns'], False)} {cbool(b['ordered'])}))"


def enc_out(c, r):
    kind = c["kind"]
    try:
        return cpair(enc_dict(kind, r["dict"]), enc_back(kind, r["back"]), enc_dict(kind, r["redict"]), cbool(bool(r["flags"])))
    except (AssertionError, TypeError, KeyError):
        # something the literal language cannot express (a node outside its tree, a non-integer cost ...):
        # make it a disagreement, the oracle decides
        return cpair("None", "None", "None", "false")


# ---------------------------------------------------------------------------
# independent oracle: the property text applied to the implementation's own objects

def in_alphabet(s):
    return all(ch in ALPHABET for ch in s)


def tree_names(t):
    return [t[0]] + [n for k in t[2] for n in tree_names(k)]


def tree_colours(t):
    return ([t[1]] if t[1] is not None else []) + [x for k in t[2] for x in tree_colours(k)]


def in_domain(c):
    for t in (c["O"], c["S"]):
        ns = tree_names(t)
        if len(set(ns)) != len(ns):
            return False, "node names are not unique"
        if not all(n and in_alphabet(n) for n in ns):
            return False, "a node name is empty or outside [A-Za-z0-9_]"
        if not all(in_alphabet(x) for x in tree_colours(t)):
            return False, "a colour is outside [A-Za-z0-9_]"
    return True, ""


def _as_map(items):
    return {json.dumps(k): v for k, v in items}


def _syn_same(orig, back, as_set):
    items = orig[1]
    if as_set:
        return set(items) == set(back[1]) and len(set(back[1])) == len(back[1])
    return list(items) == list(back[1])


def _check_input(ci, bi, want_syn):
    if bi["O"] != ci["O"]:
        return "object tree differs (topology, child order, names or colours)"
    if bi["S"] != ci["S"]:
        return "species tree differs (topology, child order, names or colours)"
    if _as_map(bi["leafmap"]) != _as_map(ci["leafmap"]):
        return "leaf assignment differs"
    if _as_map(bi["costs"]) != _as_map(ci["costs"]):
        return "event costs differ"
    if want_syn:
        if bi["leafsyn"] is None:
            return "leaf syntenies missing"
        a, b = _as_map(ci["leafsyn"]), _as_map(bi["leafsyn"])
        if set(a) != set(b) or not all(_syn_same(a[k], b[k], a[k][0] == "set") for k in a):
            return "leaf syntenies differ"
    return None


def oracle(c, r):
    ok, why = in_domain(c)
    if not ok:
        return True, "outside the property's domain: " + why
    kind = c["kind"]
    if r["back"] is None:
        return False, f"the serialised form does not parse back ({r['error']})"
    b = r["back"]
    if kind in ("RI", "SI"):
        bad = _check_input(c, b, kind == "SI")
    else:
        bad = _check_input(c, b["input"], False)
        if bad is None and _as_map(b["omap"]) != _as_map(c["omap"]):
            bad = "species mapping differs"
        if bad is None and kind == "SO":
            a, bb = _as_map(c["syns"]), _as_map(b["syns"])
            if set(a) != set(bb) or not all(_syn_same(a[k], bb[k], not c["ordered"]) for k in a):
                bad = "synteny labelling differs"
            elif b["ordered"] is not c["ordered"]:
                bad = "ordered flag differs"
    if bad is not None:
        return False, bad
    if not r["flags"]:
        return False, f"json changed the dictionary, or node events / cost() differ after the round trip: before={r.get('events_before')} after={r.get('events_after')}"
    d, e = r["dict"], r["redict"]
    di, ei = (d, e) if kind in ("RI", "SI") else (d["input"], e["input"])
    fields = ["object_tree", "species_tree", "leaf_object_species", "costs"] + (["leaf_syntenies"] if kind == "SI" else [])
    for f in fields:
        if di[f] != ei[f]:
            return False, f"serialising again changes {f}: {di[f]!r} -> {ei[f]!r}"
    for f in (["object_species"] if kind in ("RO", "SO") else []) + (["syntenies", "ordered"] if kind == "SO" else []):
        if d[f] != e[f]:
            return False, f"serialising again changes {f}: {d[f]!r} -> {e[f]!r}"
    return True, "every listed field is preserved and re-serialised verbatim"


# ---------------------------------------------------------------------------
# generators

SPECIAL_NAMES = ["NoName", "0", "1", "007", "1e5", "inf", "nan", "_", "__", "A", "a", "Aa", "aA", "a_1", "a_10", "a_2", "x", "X", "None", "0x1F", "e", "E1"]


def rand_name(rng):
    if rng.random() < 0.25:
        return rng.choice(SPECIAL_NAMES)
    return "".join(rng.choice(ALPHABET) for _ in range(rng.choice([1, 1, 2, 3, 4, 6, 9])))


def unique_names(rng, n, dup=False):
    out = []
    while len(out) < n:
        x = rand_name(rng)
        if x in out:
            continue
        out.append(x)
        if rng.random() < 0.15 and len(out) < n:   # a name extending another one
            y = x + rng.choice(["_", "1", "a", "_1"])
            if y not in out:
                out.append(y)
    if dup and n >= 2:
        i, j = rng.sample(range(n), 2)
        out[j] = out[i]
    return out


def rand_colour(rng):
    r = rng.random()
    if r < 0.1:
        return ""
    if r < 0.5:
        return rng.choice(["red", "blue", "green_2", "FF0000", "c_1"])
    return "".join(rng.choice(ALPHABET) for _ in range(rng.randint(1, 7)))


def shape_binary(rng, n):
    """random binary shape with n leaves: nested lists of kids"""
    nodes = [[] for _ in range(n)]
    while len(nodes) > 1:
        a = nodes.pop(rng.randrange(len(nodes)))
        b = nodes.pop(rng.randrange(len(nodes)))
        nodes.insert(rng.randrange(len(nodes) + 1), [a, b])
    return nodes[0]


def shape_rose(rng, n):
    """random shape with n leaves, arities 1..4"""
    nodes = [[] for _ in range(n)]
    while len(nodes) > 1:
        k = min(len(nodes), rng.choice([1, 2, 2, 2, 3, 4]))
        kids = [nodes.pop(rng.randrange(len(nodes))) for _ in range(k)]
        nodes.insert(rng.randrange(len(nodes) + 1), kids)
    if rng.random() < 0.15:
        nodes[0] = [nodes[0]]
    return nodes[0]


def count_nodes(sh):
    return 1 + sum(count_nodes(k) for k in sh)


def decorate(rng, sh, colour_p, dup=False):
    names = iter(unique_names(rng, count_nodes(sh), dup))

    def go(s):
        nm = next(names)
        col = rand_colour(rng) if rng.random() < colour_p else None
        return [nm, col, [go(k) for k in s]]
    return go(sh)


def all_paths(t, p=()):
    yield list(p)
    for i, k in enumerate(t[2]):
        yield from all_paths(k, p + (i,))


def sub(t, p):
    for i in p:
        t = t[2][i]
    return t


def leaf_paths(t):
    return [p for p in all_paths(t) if not sub(t, p)[2]]


def lcp(a, b):
    n = 0
    while n < len(a) and n < len(b) and a[n] == b[n]:
        n += 1
    return a[:n]


def rand_costs(rng, full=True):
    keys = list(COST_EVS)
    rng.shuffle(keys)
    if not full and rng.random() < 0.3:
        keys = keys[: rng.randint(0, 5)]
        if rng.random() < 0.3:
            keys += rng.sample(["LEAF", "INVALID"], rng.randint(1, 2))
    out = []
    for k in keys:
        v = rng.randint(0, 3)
        if k == "HORIZONTAL_TRANSFER" and rng.random() < 0.45:
            v = "inf"
        elif not full and rng.random() < 0.05:
            v = rng.choice(["inf", "-inf", -2, 1000000007])
        out.append([k, v])
    return out


FAMS = ["a", "b", "c", "d", "g1", "g2", "g10", "g01", "g7a1", "x", "X", "x_1", "10", "9", "09", "cas1", "cas3", "B", "b2", "b02"]


def rand_fams(rng, k):
    return rng.sample(FAMS, k)


def subseq(rng, seq):
    out = [x for x in seq if rng.random() < 0.7]
    return out or [rng.choice(seq)]


def rand_syn_value(rng, items, allow_set):
    r = rng.random()
    if allow_set and r < 0.5:
        its = list(items)
        rng.shuffle(its)
        return ["set", its]
    if r < 0.6:
        return ["tuple", list(items)]
    if r < 0.65 and all(len(x) == 1 for x in items):
        return ["str", list(items)]
    return ["list", list(items)]


def gen_base(rng, binary, dup=False, max_leaves=8):
    n = rng.randint(1, max_leaves) if rng.random() < 0.9 else max_leaves
    m = rng.randint(1, max_leaves if not binary else 6)
    shO = shape_binary(rng, n) if binary else shape_rose(rng, n)
    shS = shape_binary(rng, m) if binary or rng.random() < 0.5 else shape_rose(rng, m)
    pc = rng.choice([0.0, 0.2, 0.5, 1.0])
    O = decorate(rng, shO, pc, dup)
    S = decorate(rng, shS, rng.choice([0.0, 0.3]), dup and rng.random() < 0.5)
    sl = leaf_paths(S)
    lm = [[p, rng.choice(sl)] for p in leaf_paths(O)]
    rng.shuffle(lm)
    return {"O": O, "S": S, "leafmap": lm, "costs": rand_costs(rng, full=binary), "leafsyn": None}


def lifted_lca_map(rng, c):
    """a valid species mapping: LCA of the children's species, sometimes lifted to an ancestor (a duplication)"""
    O = c["O"]
    leaf = {tuple(p): q for p, q in c["leafmap"]}
    res = {}

    def go(p):
        t = sub(O, p)
        if not t[2]:
            res[tuple(p)] = leaf[tuple(p)]
            return res[tuple(p)]
        qs = [go(p + [i]) for i in range(len(t[2]))]
        q = qs[0]
        for x in qs[1:]:
            q = lcp(q, x)
        if rng.random() < 0.3 and q:
            q = q[: rng.randrange(len(q))]
        res[tuple(p)] = q
        return q
    go([])
    items = [[list(p), q] for p, q in res.items()]
    rng.shuffle(items)
    return items


def topdown_labelling(rng, c, allow_set):
    O = c["O"]
    k = rng.randint(1, 6)
    root = rand_fams(rng, k)
    lab = {}

    def go(p, syn):
        lab[tuple(p)] = syn
        for i in range(len(sub(O, p)[2])):
            go(p + [i], subseq(rng, syn))
    go([], root)
    items = [[list(p), rand_syn_value(rng, s, allow_set)] for p, s in lab.items()]
    rng.shuffle(items)
    leafsyn = [[p, rand_syn_value(rng, lab[tuple(p)], allow_set)] for p in leaf_paths(O)]
    return items, leafsyn


def solver_cases(rng, c, which):
    """run a solver of the implementation on the described input; return output descriptions"""
    ete3, M, Y, LCA = _mods()
    from superrec2.compute.reconciliation import reconcile_lca, reconcile_thl
    from superrec2.compute.super_reconciliation import sreconcile_extended_spfs
    from superrec2.compute.unordered_super_reconciliation import usreconcile_extended_uspfs
    from superrec2.utils.dynamic_programming import RetentionPolicy
    inp = make_object({**c, "kind": "SI" if c["leafsyn"] is not None else "RI"})
    O, S = inp.object_tree, inp.species_lca.tree
    if which == "lca":
        outs = [reconcile_lca(inp)]
    elif which == "thl":
        outs = list(reconcile_thl(inp, RetentionPolicy.ALL))
    elif which == "spfs":
        outs = list(sreconcile_extended_spfs(inp, RetentionPolicy.ALL))
    else:
        outs = list(usreconcile_extended_uspfs(inp, RetentionPolicy.ALL))
    outs.sort(key=lambda o: json.dumps(o.to_dict(), sort_keys=True))
    res = []
    for o in outs[:3]:
        d = dict(c)
        d["omap"] = [[path_of(O, a), path_of(S, b)] for a, b in o.object_species.items()]
        if which in ("spfs", "uspfs"):
            d["kind"] = "SO"
            d["syns"] = [[path_of(O, a), [syn_kind(v), list(v)]] for a, v in o.syntenies.items()]
            d["ordered"] = o.ordered
        else:
            d["kind"] = "RO"
        d["src"] = which
        res.append(d)
    return res


def gen_cases(ctx, kind, n, dup=False):
    rng = ctx.rng
    out = []
    guard = 0
    while len(out) < n and guard < 20 * n + 100:
        guard += 1
        binary = kind in ("RO", "SO") or rng.random() < 0.5
        c = gen_base(rng, binary, dup)
        c["kind"] = kind
        c["src"] = "random"
        if kind == "RI":
            out.append(c)
            continue
        if kind == "SI":
            _, c["leafsyn"] = topdown_labelling(rng, c, allow_set=True)
            rng.shuffle(c["leafsyn"])
            out.append(c)
            continue
        src = rng.choice(["random", "random", "lca", "thl"] if kind == "RO" else ["random", "random", "spfs", "uspfs"])
        if dup:
            src = "random"
        if kind == "RO" and rng.random() < 0.3:      # an output whose input object is a SuperReconciliationInput
            _, c["leafsyn"] = topdown_labelling(rng, c, allow_set=True)
        if src == "random":
            c["omap"] = lifted_lca_map(rng, c)
            if kind == "SO":
                c["ordered"] = rng.random() < 0.5
                # an ordered labelling is made of sequences (cost() of the implementation raises TypeError on sets)
                c["syns"], ls = topdown_labelling(rng, c, allow_set=not c["ordered"])
                if rng.random() < 0.6:
                    c["leafsyn"] = ls
            out.append(c)
            continue
        if len(leaf_paths(c["O"])) < 2 or len(c["costs"]) < 5:
            continue
        if kind == "SO":
            order = rand_fams(rng, rng.randint(1, 5))
            c["leafsyn"] = [[p, ["list", subseq(rng, order)]] for p in leaf_paths(c["O"])]
        try:
            out.extend(solver_cases(rng, c, src))
        except Exception as e:  # noqa: BLE001 - a solver refusing an input is not this property's business
            ctx.dist.setdefault("solver_refusals", {}).setdefault(type(e).__name__, 0)
            ctx.dist["solver_refusals"][type(e).__name__] += 1
    return out[:n] if len(out) > n else out


def nontrivial(c, r):
    if len(leaf_paths(c["O"])) < 3 or r["back"] is None:
        return False
    has_col = bool(tree_colours(c["O"]) or tree_colours(c["S"]))
    has_inf = any(v in ("inf", "-inf") for _, v in c["costs"])
    has_set = any(s[0] == "set" for _, s in (c.get("syns") or []) + (c["leafsyn"] or []))
    inner = any(sub(c["O"], p)[2] for p, _ in c.get("omap", []))
    return has_col or has_inf or has_set or inner


# ---------------------------------------------------------------------------

def batches(ctx):
    rng = ctx.rng
    quick = ctx.quick()
    replay = getattr(ctx, "replay_case", None)

    sizes = {"RI": 120, "SI": 120, "RO": 220, "SO": 260} if quick else {"RI": 1500, "SI": 1500, "RO": 3000, "SO": 4000}
    tys = {"RI": ("rinput", "dinput", "rinput", "run_ri", "res_eqb di_eqb ri_eqb"),
           "SI": ("sinput", "dinput", "sinput", "run_si", "res_eqb di_eqb si_eqb"),
           "RO": ("routput", "droutput", "routput", "run_ro", "res_eqb dro_eqb ro_eqb"),
           "SO": ("soutput", "dsoutput", "soutput", "run_so", "res_eqb dso_eqb so_eqb")}
    kept = {"RO": [], "SO": []}
    for kind in ("RI", "SI", "RO", "SO"):
        cases = [] if replay is not None else gen_cases(ctx, kind, sizes[kind])
        if kind in kept:
            kept[kind] = cases
        tin, td, tx, run, eqb = tys[kind]
        srcs = {}
        for c in cases:
            srcs[c["src"]] = srcs.get(c["src"], 0) + 1
        ctx.dist[kind] = {
            "cases": len(cases), "by_source": srcs,
            "object_leaves": _hist(len(leaf_paths(c["O"])) for c in cases),
            "with_colour": sum(1 for c in cases if tree_colours(c["O"]) or tree_colours(c["S"])),
            "with_infinite_cost": sum(1 for c in cases if any(v in ("inf", "-inf") for _, v in c["costs"])),
            "with_set_synteny": sum(1 for c in cases if any(s[0] == "set" for _, s in (c.get("syns") or []) + (c["leafsyn"] or []))),
            "unordered": sum(1 for c in cases if c.get("ordered") is False),
            "input_is_super": sum(1 for c in cases if c["leafsyn"] is not None),
        }
        yield Batch(
            name=kind, header=HEADER, run=run, eqb=eqb,
            ty_in=tin, ty_out=f"option {td} * option {tx} * option {td} * bool",
            cases=cases, impl=impl, enc_in=enc_in, enc_out=enc_out,
            oracle=oracle, nontrivial=nontrivial, exhaustive=False, shard=40 if quick else 120,
            describe={"RI": "ReconciliationInput", "SI": "SuperReconciliationInput", "RO": "ReconciliationOutput", "SO": "SuperReconciliationOutput"}[kind]
                     + ": to_dict -> json -> from_dict -> to_dict; dictionaries, re-read object and re-serialisation compared with the model",
        )

    # the evaluator glue of C11_same_events_and_cost_* against cost() / node_event, before and after the round trip
    ecases = [json.loads(json.dumps(c)) for c in kept["RO"] + kept["SO"]]
    # variants the generators above do not reach: an infinite transfer cost under a solution that uses transfers (infinite total),
    # and one internal node moved to a random species (transfers in hand-made mappings, INVALID nodes, cost() that raises on
    # the labelling of an INVALID node); the second kind is outside the property's domain (not a valid reconciliation) but
    # inside the evaluator's, and the before/after comparison applies all the same
    for c in list(ecases):
        r = rng.random()
        if c["src"] in ("thl", "spfs", "uspfs") and r < 0.35 and any(k == "HORIZONTAL_TRANSFER" and v != "inf" for k, v in c["costs"]):
            v = json.loads(json.dumps(c))
            v["costs"] = [[k, "inf" if k == "HORIZONTAL_TRANSFER" else x] for k, x in v["costs"]]
            v["src"] = c["src"] + "+inf_transfer"
            ecases.append(v)
        elif c["src"] == "random" and r < 0.5:
            inner = [i for i, (q, _) in enumerate(c["omap"]) if sub(c["O"], q)[2]]
            if inner:
                v = json.loads(json.dumps(c))
                v["omap"][rng.choice(inner)][1] = rng.choice(list(all_paths(v["S"])))
                v["src"] = "random+moved_node"
                ecases.append(v)
    eseen = {"cost": {"finite": 0, "infinite": 0, "raises": 0, "other": 0}, "events": {}, "not_parsed_back": 0}
    ctx.dist["evaluator_observed"] = eseen

    def observe_eval(c, r):        # parent process
        v = r["before"]["cost"]
        k = "finite" if isinstance(v, int) else "infinite" if v in ("inf", "-inf") else "raises" if str(v).startswith("exc:") else "other"
        eseen["cost"][k] += 1
        if isinstance(r["before"]["events"], list):
            for e in r["before"]["events"]:
                eseen["events"][e] = eseen["events"].get(e, 0) + 1
        eseen["not_parsed_back"] += r["after"] is None

    ctx.dist["evaluator"] = {
        "cases": len(ecases), "plain_outputs": sum(1 for c in ecases if c["kind"] == "RO"), "super_outputs": sum(1 for c in ecases if c["kind"] == "SO"),
        "ordered": sum(1 for c in ecases if c.get("ordered") is True), "unordered": sum(1 for c in ecases if c.get("ordered") is False),
        "with_set_synteny": sum(1 for c in ecases if any(s[0] == "set" for _, s in (c.get("syns") or []))),
        "with_infinite_cost": sum(1 for c in ecases if any(v in ("inf", "-inf") for _, v in c["costs"])),
        "by_source": _hist(c["src"] for c in ecases),
    }
    yield Batch(
        name="evaluator", header=EVAL_HEADER, run="run_eval", eqb="eval_eqb",
        ty_in="(routput + soutput)%type", ty_out="eval_out",
        cases=ecases, impl=impl_eval, observe=observe_eval, enc_in=enc_eval_in, enc_out=enc_eval_out,
        oracle=oracle_eval,
        nontrivial=lambda c, r: r["after"] is not None and isinstance(r["before"]["events"], list) and len(r["before"]["events"]) >= 2,
        exhaustive=False, shard=40 if quick else 120,
        describe="the RO and SO cases again, plus variants with an infinite transfer cost or one internal node moved to a random species: Model/CliRun.v's `eval_result (own_num r) r` (= eval_routput / eval_soutput under the object's own family numbering) and "
                 "Proofs/C11EvalProofs.v's `output_events` on the object r as built and on the object the model reads back from r's dictionary, against the package's "
                 "`cost()` (exact: integer or infinity; an exception = None) and `node_event` of every internal object node in pre-order (a transfer with the side "
                 "`_cost_rec` keeps) on the object as built and on `from_dict(json.loads(json.dumps(x.to_dict())))`; the oracle asks for equal observations before and after",
    )

    # malformed stream: duplicate node names (outside the property's domain; the model mirrors dict overwriting and
    # the level-order lookup, so agreement is expected and nothing is alarmed; outcomes are recorded)
    mal = [] if replay is not None else gen_cases(ctx, "RO", 60 if quick else 800, dup=True)
    outcomes = {}

    def impl_mal(c):
        return impl(c)

    def observe_mal(c, r):        # parent process (Batch.observe)
        if r["back"] is None:
            k = "raises " + str(r["error"])
        elif r["back"]["input"]["O"] == c["O"] and _as_map(r["back"]["omap"]) == _as_map(c["omap"]) and _as_map(r["back"]["input"]["leafmap"]) == _as_map(c["leafmap"]):
            k = "reads back the same object (the duplicated name is not a mapping key that matters)"
        else:
            k = "reads back a different mapping (items merged / redirected to the first node of that name)"
        outcomes[k] = outcomes.get(k, 0) + 1
        ctx.dist["malformed_duplicate_names"] = dict(outcomes)

    tin, td, tx, run, eqb = tys["RO"]
    yield Batch(
        name="malformed", header=HEADER, run=run, eqb=eqb,
        ty_in=tin, ty_out=f"option {td} * option {tx} * option {td} * bool",
        cases=mal, impl=impl_mal, observe=observe_mal, enc_in=enc_in,
        enc_out=lambda c, r: cpair(enc_dict("RO", r["dict"]), enc_back("RO", r["back"]), enc_dict("RO", r["redict"]),
                                   cbool(True)),   # events/cost of a merged mapping are not compared here
        oracle=oracle, nontrivial=lambda c, r: False, exhaustive=False, shard=40 if quick else 120,
        describe="ReconciliationOutput over trees with a duplicated node name (outside the domain): dict merging and first-match lookup compared with the model, outcome histogram recorded",
    )

    # ete3 writer/reader against the Gallina printer/parser -------------------------------------------------
    ncases = []
    if replay is None:
        for sh in _all_shapes(4):
            ncases.append({"t": decorate(rng, sh, 0.4)})
        for _ in range(300 if quick else 6000):
            n = rng.randint(1, 8)
            sh = shape_rose(rng, n) if rng.random() < 0.6 else shape_binary(rng, n)
            ncases.append({"t": decorate(rng, sh, rng.choice([0.0, 0.3, 1.0]))})
        # names / colours with characters the writer replaces by "_" (outside the domain; printer only is expected to agree)
        for _ in range(40 if quick else 600):
            t = decorate(rng, shape_rose(rng, rng.randint(1, 5)), 0.5)
            bad = rng.choice([":", ";", "(", ")", ",", "[", "]", "=", " ", "-", ".", "'", "&"])
            p = rng.choice(list(all_paths(t)))
            nd = sub(t, p)
            if rng.random() < 0.5 or nd[1] is None:
                nd[0] = nd[0][:1] + bad + nd[0][1:]
            else:
                nd[1] = nd[1] + bad
            ncases.append({"t": t, "odd": True})

    def impl_newick(c):
        ete3, M, Y, LCA = _mods()
        from ete3.parser.newick import NewickError
        t = build_tree(ete3, c["t"])
        s = t.write(format=8, format_root_node=True, features=["color"])
        try:
            back = nested(ete3.Tree(s, format=1))
        except NewickError:
            back = None
        return {"s": s, "back": back}

    def oracle_newick(c, r):
        ns = tree_names(c["t"])
        if c.get("odd") or not all(n and in_alphabet(n) for n in ns) or not all(in_alphabet(x) for x in tree_colours(c["t"])):
            return True, "outside the property's domain (characters outside [A-Za-z0-9_])"
        return r["back"] == c["t"], f"ete3 write -> read changed the tree: {r['s']!r} -> {r['back']!r}"

    yield Batch(
        name="newick", header=HEADER,
        run="fun x : tree * bool => (print_tree (fst x), if snd x then None else parse_tree (print_tree (fst x)))",
        eqb="pair_eqb String.eqb (opt_eqb tree_eqb)",
        ty_in="tree * bool", ty_out="string * option tree",
        cases=ncases, impl=impl_newick,
        enc_in=lambda c: cpair(enc_tree(c["t"]), cbool(bool(c.get("odd")))),
        enc_out=lambda c, r: cpair(cstr(r["s"]), "None" if (c.get("odd") or r["back"] is None) else f"(Some {enc_tree(r['back'])})"),
        oracle=oracle_newick, nontrivial=lambda c, r: count_nodes_t(c["t"]) >= 3 and not c.get("odd"),
        exhaustive=False, shard=150,
        describe="ete3 write(format=8, format_root_node=True, features=['color']) vs Newick.print_tree string for string, and Tree(s, format=1) vs Newick.parse_tree, "
                 "on every shape up to 4 leaves (arity <= 3) and random trees up to 8 leaves; printer only on names with characters the writer replaces",
    )

    # sort_synteny ---------------------------------------------------------------------------------------------
    scases = []
    if replay is None:
        for _ in range(500 if quick else 8000):
            pool = FAMS if rng.random() < 0.6 else ["".join(rng.choice("ab01_9A") for _ in range(rng.randint(0, 4))) for _ in range(8)]
            k = rng.randint(0, min(7, len(pool)))
            items = rng.sample(pool, k) if rng.random() < 0.8 else [rng.choice(pool) for _ in range(k)]
            scases.append({"syn": ["set" if rng.random() < 0.6 else "list", items]})

    def impl_sort(c):
        ete3, M, Y, LCA = _mods()
        v = mk_syn(c["syn"])          # records the iteration order of a set in c["syn"][2]
        if c["syn"][0] == "list":
            c["syn"] = [c["syn"][0], c["syn"][1], list(v)]
        return {"sorted": Y.sort_synteny(v)}

    def oracle_sort(c, r):
        items = c["syn"][1] if c["syn"][0] == "list" else list(set(c["syn"][1]))
        return sorted(items) == sorted(r["sorted"]), "sort_synteny must return a permutation of its argument"

    yield Batch(
        name="sort_synteny", header=HEADER, run="sort_synteny", eqb="strs_eqb",
        ty_in="list string", ty_out="list string",
        cases=scases, impl=impl_sort,
        enc_in=lambda c: clist(cstr(x) for x in c["syn"][2]),
        enc_out=lambda c, r: clist(cstr(x) for x in r["sorted"]),
        oracle=oracle_sort, nontrivial=lambda c, r: len(r["sorted"]) >= 3,
        exhaustive=False, shard=600,
        describe="sort_synteny on sets (iteration order recorded and given to the model) and lists of family names with digit groups, leading zeros and key ties",
    )


def count_nodes_t(t):
    return 1 + sum(count_nodes_t(k) for k in t[2])


def _hist(xs):
    h = {}
    for x in xs:
        h[str(x)] = h.get(str(x), 0) + 1
    return h


def _all_shapes(max_leaves):
    """every rose shape with at most max_leaves leaves and arity <= 3 (unary nodes only above leaves or forks, depth-limited)"""
    from functools import lru_cache

    @lru_cache(None)
    def shapes(n, unary_ok):
        out = []
        if n == 1:
            out.append(())
        if unary_ok:
            out.extend((s,) for s in shapes(n, False))
        for a in range(1, n):
            for l in shapes(a, True):
                for r in shapes(n - a, True):
                    out.append((l, r))
        for a in range(1, n):
            for b in range(1, n - a):
                for l in shapes(a, False):
                    for m in shapes(b, False):
                        for r in shapes(n - a - b, False):
                            out.append((l, m, r))
        return tuple(out)

    def tolist(s):
        return [tolist(k) for k in s]
    res = []
    for n in range(1, max_leaves + 1):
        res.extend(tolist(s) for s in shapes(n, True))
    return res
