"""C17 — ancestry queries on trees are exact (Euler tour + sparse-table RMQ)."""
from __future__ import annotations

import itertools
from collections import deque

from ..core import Batch, cZ, clist, cpair

ID = "C17"
LEVEL = "proof"
PROP_FILE = "Properties/C17.v"
PROOF_FILES = ["Gen/LcaGen.v", "Proofs/LcaGenProofs.v", "Gen/RmqGen.v", "Proofs/RmqGenProofs.v", "Proofs/EulerProofs.v", "Proofs/RmqProofs.v", "Model/Euler.v", "Model/Rmq.v"]
TRUSTED = [
    "translator translator/pyfun.py + the type table in translator/lca_gen.py: _euler_tour and class LowestCommonAncestor of utils/trees.py are translated into Gen/LcaGen.v on every run (nodes = identifiers, identity equality, the tree is not modified after construction) and proved equal to Model/Euler.v",
    "translator translator/pyfun.py + the type table in translator/rmq_gen.py: utils/range_min_query.py is translated statement by statement into Gen/*.v on every run and proved equal to the hand-written model",
    "model Model/Rmq.v of utils/range_min_query.py (sparse table built row by row, query by two overlapping blocks)",
    "model Model/Euler.v of _euler_tour / LowestCommonAncestor in utils/trees.py (nodes identified by root paths)",
]
ASSUMES = [
    "ete3 TreeNode objects are compared by identity (no __eq__/__lt__ override), so a node is faithfully represented by its root path",
    "Python's two-argument min(a, b) returns a unless b < a; tuples compare lexicographically",
]
RULE = ("tree cases: (rooted ordered tree shape, list of queries); exhaustive part = every shape up to the tier's node count with "
        "every ordered pair (LCA, ancestor, strict ancestor, comparable, distance), every ordered triple (LCA) and every node (LCA, level); "
        "random part = random trees up to 40 nodes (recursive, deep, wide, caterpillar) with random 1-5-argument queries and a malformed "
        "stream (no argument, foreign node); non-trivial tree case = at least 3 nodes; "
        "array cases: every non-empty array over {0,1,2} up to the tier's length with every range 0 <= i, j <= n (empty and reversed ones included), "
        "random arrays up to length 40 with in-range, empty, reversed and out-of-range queries, and the empty array (constructor must raise); "
        "non-trivial array case = length >= 2")
OPEN_GOALS: list = []

# ---------------------------------------------------------------------------
# Coq side

HEADER_COMMON = """From SR Require Import Model.Rmq Model.Euler.
Open Scope nat_scope.
Fixpoint leqb {A} (e : A -> A -> bool) (x y : list A) : bool :=
  match x, y with [], [] => true | a :: x', b :: y' => e a b && leqb e x' y' | _, _ => false end.
Definition oeqb {A} (e : A -> A -> bool) (x y : option A) : bool :=
  match x, y with None, None => true | Some a, Some b => e a b | _, _ => false end.
"""

HEADER_RMQ = HEADER_COMMON + """
(* answer codes: -2 = the call raised, -1 = returned None, v >= 0 = returned v *)
Definition code (r : @qres Z) : Z := match r with QErr => (-2)%Z | QNone => (-1)%Z | QVal v => v end.
Definition all_ranges (n : nat) : list (nat * nat) := list_prod (seq 0 (n + 1)) (seq 0 (n + 1)).
Definition run_all (data : list Z) : option (list Z) :=
  match build Z.leb data with
  | None => None
  | Some t => Some (map (fun ij => code (query Z.leb t (fst ij) (snd ij))) (all_ranges (List.length data)))
  end.
Definition run_some (c : list Z * list (nat * nat)) : option (list Z) :=
  match build Z.leb (fst c) with
  | None => None
  | Some t => Some (map (fun ij => code (query Z.leb t (fst ij) (snd ij))) (snd c))
  end.
"""

HEADER_LCA = HEADER_COMMON + """
Inductive qry :=
  | Lca (ps : list path) | Anc (a b : path) | Strict (a b : path) | Comp (a b : path)
  | Lvl (a : path) | Dist (a b : path).
Definition zpath (p : path) : list Z := map Z.of_nat p.
Definition b2z (b : bool) : list Z := [if b then 1%Z else 0%Z].
(* None = the call raised; otherwise a path, [0]/[1] for a boolean, [n] for a number *)
Definition answer (L : lca) (q : qry) : option (list Z) :=
  match q with
  | Lca ps => option_map zpath (lca_query L ps)
  | Anc a b => option_map b2z (is_ancestor_of L a b)
  | Strict a b => option_map b2z (is_strict_ancestor_of L a b)
  | Comp a b => option_map b2z (is_comparable L a b)
  | Lvl a => option_map (fun n => [Z.of_nat n]) (level L a)
  | Dist a b => option_map (fun z => [z]) (distance L a b)
  end.
Definition run_lca (c : rose * list qry) : option (list (option (list Z))) :=
  match make (fst c) with
  | None => None
  | Some L => Some (map (answer L) (snd c))
  end.
"""

EQB_RMQ = "oeqb (leqb Z.eqb)"
EQB_LCA = "oeqb (leqb (oeqb (leqb Z.eqb)))"


def cn(n: int) -> str:
    assert 0 <= n < 5000
    return str(n)


def cpath(p) -> str:
    return clist(cn(k) for k in p)


def cshape(s) -> str:
    return "Node " + clist("(" + cshape(c) + ")" for c in s)


def cshape_top(s) -> str:
    return "(" + cshape(s) + ")"


_QCON = {"lca": "Lca", "anc": "Anc", "strict": "Strict", "comp": "Comp", "level": "Lvl", "dist": "Dist"}


def cquery(q) -> str:
    kind = q[0]
    if kind == "lca":
        return "Lca " + clist(cpath(p) for p in q[1])
    return _QCON[kind] + " " + " ".join(cpath(p) for p in q[1:])


def cans(a) -> str:
    """implementation answer -> Gallina literal of type option (list Z)"""
    if isinstance(a, str):           # "!ExceptionName"
        return "None"
    if isinstance(a, bool):
        return "(Some [" + ("1" if a else "0") + "%Z])"
    if isinstance(a, int):
        return "(Some [" + cZ(a) + "])"
    return "(Some " + clist(cZ(k) for k in a) + ")"


# ---------------------------------------------------------------------------
# shapes and trees

def shapes(n: int):
    """every rooted ordered tree with n nodes, as nested lists of children"""
    if n == 1:
        yield []
        return
    for forest in forests(n - 1):
        yield forest


def forests(n: int):
    """every ordered forest with n nodes in total"""
    if n == 0:
        yield []
        return
    for k in range(1, n + 1):
        for first in shapes(k):
            for rest in forests(n - k):
                yield [first] + rest


def shape_paths(s, p=()):
    yield p
    for k, c in enumerate(s):
        yield from shape_paths(c, p + (k,))


def shape_from_parents(parents):
    """parents[i] < i is the parent of node i (node 0 is the root); children in insertion order"""
    kids = [[] for _ in parents]
    for i, par in enumerate(parents):
        if i:
            kids[par].append(i)

    def go(i):
        return [go(c) for c in kids[i]]
    return go(0)


def random_shape(rng, n):
    style = rng.choice(["recursive", "deep", "wide", "caterpillar", "binary"])
    parents = [0] * n
    for i in range(1, n):
        if style == "recursive":
            parents[i] = rng.randrange(i)
        elif style == "deep":
            parents[i] = max(0, i - 1 - min(rng.randrange(3), rng.randrange(3)))
        elif style == "wide":
            parents[i] = rng.randrange(min(i, 3))
        elif style == "caterpillar":
            spine = [j for j in range(i) if j % 2 == 0]
            parents[i] = spine[-1] if i % 2 else rng.choice(spine[-2:])
        else:
            parents[i] = (i - 1) // 2
    return style, shape_from_parents(parents)


def build_ete(shape):
    """ete3 tree of a shape; returns (root, path -> node, id(node) -> path)"""
    import ete3
    root = ete3.Tree()
    by_path = {(): root}

    def go(node, s, p):
        for k, c in enumerate(s):
            child = node.add_child()
            by_path[p + (k,)] = child
            go(child, c, p + (k,))
    go(root, shape, ())
    by_id = {id(n): p for p, n in by_path.items()}
    return root, by_path, by_id


# ---------------------------------------------------------------------------
# implementation runs

def _trees():
    from superrec2.utils import trees
    return trees


def _rmq():
    from superrec2.utils.range_min_query import RangeMinQuery
    return RangeMinQuery


def _prime_lca(T, root, by_path):
    """history independence: a structure is first built on the same root object while one subtree hangs
    elsewhere; the subtree is then moved back in place (same parent, same position) before the structure
    that is observed gets built.  Nothing remembered from the first construction may leak into the second."""
    paths = sorted(p for p in by_path if p)
    if len(paths) < 2:
        return
    x = by_path[paths[-1]]
    px = x.up
    ix = px.children.index(x)
    inside = {id(n) for n in x.traverse()}
    targets = [n for p, n in sorted(by_path.items()) if n is not px and id(n) not in inside]
    if not targets:
        return
    t = targets[-1]
    px.children.pop(ix)
    t.children.append(x)
    x.up = t
    try:
        T.LowestCommonAncestor(root)
    except Exception:  # noqa: BLE001 - the priming construction is not judged
        pass
    t.children.pop()
    px.children.insert(ix, x)
    x.up = px


def impl_lca(case):
    import ete3
    T = _trees()
    root, by_path, by_id = build_ete(case["shape"])
    if len(case["queries"]) % 2 == 0:
        _prime_lca(T, root, by_path)
    try:
        L = T.LowestCommonAncestor(root)
    except Exception as e:  # noqa: BLE001 - any exception is a result here
        return {"built": "!" + type(e).__name__, "answers": None}
    foreign = {}

    def node(p):
        p = tuple(p)
        if p in by_path:
            return by_path[p]
        if p not in foreign:                      # a node that is not in the tree
            foreign[p] = ete3.Tree()
        return foreign[p]

    def back(n):
        return list(by_id[id(n)]) if id(n) in by_id else "!not-a-node-of-the-tree"

    out = []
    for q in case["queries"]:
        kind = q[0]
        try:
            if kind == "lca":
                r = back(L(*[node(p) for p in q[1]]))
            elif kind == "anc":
                r = L.is_ancestor_of(node(q[1]), node(q[2]))
            elif kind == "strict":
                r = L.is_strict_ancestor_of(node(q[1]), node(q[2]))
            elif kind == "comp":
                r = L.is_comparable(node(q[1]), node(q[2]))
            elif kind == "level":
                r = L.level(node(q[1]))
            elif kind == "dist":
                r = L.distance(node(q[1]), node(q[2]))
            else:
                raise ValueError(kind)
            if isinstance(r, bool) or isinstance(r, list) or isinstance(r, str):
                pass
            elif isinstance(r, int):
                r = int(r)
            else:
                r = "!unexpected-result-" + type(r).__name__
        except Exception as e:  # noqa: BLE001
            r = "!" + type(e).__name__
        out.append(r)
    return {"built": True, "answers": out}


def enc_out_lca(case, res):
    if res["built"] is not True:
        return "None"
    return "(Some " + clist(cans(a) for a in res["answers"]) + ")"


def enc_in_lca(case):
    return cpair(cshape_top(case["shape"]), clist(cquery(q) for q in case["queries"]))


def _code(fn):
    try:
        r = fn()
    except Exception as e:  # noqa: BLE001
        return "!" + type(e).__name__
    return r


def impl_rmq(case):
    R = _rmq()
    data = case["data"]
    try:
        rmq = R(list(data))
    except Exception as e:  # noqa: BLE001
        return {"built": "!" + type(e).__name__, "answers": None}
    if "queries" in case:
        qs = case["queries"]
    else:
        n = len(data)
        qs = [(i, j) for i in range(n + 1) for j in range(n + 1)]
    return {"built": True, "answers": [_code(lambda: rmq(i, j)) for i, j in qs]}


def _zcode(a):
    if isinstance(a, str):
        return "(-2)"
    if a is None:
        return "(-1)"
    assert isinstance(a, int) and a >= 0
    return str(a)


def enc_out_rmq(case, res):
    if res["built"] is not True:
        return "None"
    return "(Some " + clist(_zcode(a) for a in res["answers"]) + "%Z)"


# ---------------------------------------------------------------------------
# independent oracles (from the property text: parent chains and min(data[i:j]))

def oracle_lca(case, res):
    root, by_path, by_id = build_ete(case["shape"])
    if res["built"] is not True:
        return False, f"constructing LowestCommonAncestor on a valid tree raised {res['built']}"

    def chain(n):           # n, parent, grandparent, ... root
        out = [n]
        while out[-1].up is not None:
            out.append(out[-1].up)
        return out

    def graph_distance(a, b):   # breadth-first search over parent/child links
        seen = {id(a): 0}
        todo = deque([a])
        while todo:
            x = todo.popleft()
            if x is b:
                return seen[id(x)]
            for y in list(x.children) + ([x.up] if x.up is not None else []):
                if id(y) not in seen:
                    seen[id(y)] = seen[id(x)] + 1
                    todo.append(y)
        return None

    for q, a in zip(case["queries"], res["answers"]):
        kind = q[0]
        args = q[1] if kind == "lca" else q[1:]
        if not args or any(tuple(p) not in by_path for p in args):
            continue        # no argument / foreign node: outside the property's domain
        nodes = [by_path[tuple(p)] for p in args]
        chains = [chain(n) for n in nodes]
        if kind == "lca":
            common = [x for x in chains[0] if all(any(x is y for y in c) for c in chains[1:])]
            want = list(by_id[id(common[0])])       # deepest common ancestor = first on the upward chain
        elif kind == "anc":
            want = any(nodes[0] is y for y in chains[1])
        elif kind == "strict":
            want = any(nodes[0] is y for y in chains[1][1:])
        elif kind == "comp":
            want = any(nodes[0] is y for y in chains[1]) or any(nodes[1] is y for y in chains[0])
        elif kind == "level":
            want = len(chains[0]) - 1
        else:
            want = graph_distance(nodes[0], nodes[1])
        if a != want or type(a) is not type(want):
            return False, f"query {q}: parent chains give {want}, implementation returned {a}"
    return True, "every query of this case agrees with the parent-chain definitions"


def oracle_rmq(case, res):
    data = case["data"]
    n = len(data)
    if n == 0:
        return True, "empty array: outside the property's domain"
    if res["built"] is not True:
        return False, f"constructing RangeMinQuery on a non-empty array raised {res['built']}"
    qs = case["queries"] if "queries" in case else [(i, j) for i in range(n + 1) for j in range(n + 1)]
    for (i, j), a in zip(qs, res["answers"]):
        if i < 0 or j < 0 or i > n or j > n:
            continue        # outside the array: outside the property's domain
        want = min(data[i:j]) if i < j else None
        if a != want:
            return False, f"range [{i},{j}) of {data}: min(data[i:j]) = {want}, implementation returned {a}"
    return True, "every range of this case returns its minimum"


# ---------------------------------------------------------------------------
# batches

def _all_queries(shape):
    nodes = [list(p) for p in shape_paths(shape)]
    qs = []
    for a in nodes:
        qs.append(["lca", [a]])
        qs.append(["level", a])
    for a, b in itertools.product(nodes, repeat=2):
        qs.append(["lca", [a, b]])
        qs.append(["anc", a, b])
        qs.append(["strict", a, b])
        qs.append(["comp", a, b])
        qs.append(["dist", a, b])
    for a, b, c in itertools.product(nodes, repeat=3):
        qs.append(["lca", [a, b, c]])
    return qs


def _random_queries(rng, shape, count):
    nodes = [list(p) for p in shape_paths(shape)]
    leaves_deep = sorted(nodes, key=len)[-max(1, len(nodes) // 3):]
    qs = []

    def pick():
        return list(rng.choice(leaves_deep if rng.random() < 0.4 else nodes))
    for _ in range(count):
        r = rng.random()
        if r < 0.45:
            k = rng.choice([1, 2, 2, 3, 3, 4, 5])
            qs.append(["lca", [pick() for _ in range(k)]])
        elif r < 0.55:
            a = pick()
            b = a[:rng.randint(0, len(a))] if rng.random() < 0.5 else pick()
            qs.append([rng.choice(["anc", "strict", "comp"]), a, b] if rng.random() < 0.5
                      else [rng.choice(["anc", "strict", "comp"]), b, a])
        elif r < 0.7:
            qs.append([rng.choice(["anc", "strict", "comp"]), pick(), pick()])
        elif r < 0.8:
            qs.append(["level", pick()])
        else:
            qs.append(["dist", pick(), pick()])
    # malformed stream: no argument, a node of another tree (alone, first, last)
    bad = [len(shape) + 7]
    qs.append(["lca", []])
    qs.append(["lca", [bad]])
    qs.append(["lca", [pick(), bad]])
    qs.append(["lca", [bad, pick()]])
    qs.append(["level", bad])
    qs.append(["anc", pick(), bad])
    qs.append(["dist", bad, pick()])
    return qs


def pre_build(ctx):
    from translator import rmq_gen
    from .. import core
    from translator import lca_gen
    changed = rmq_gen.regenerate(core.REPO)
    changed = lca_gen.regenerate(core.REPO) or changed
    ctx.notes.append("Gen file of utils/range_min_query.py " + ("regenerated (content changed)" if changed else "regenerated: unchanged"))


def batches(ctx):
    rng = ctx.rng
    quick = ctx.quick()

    # 1. range-minimum queries: exhaustive small arrays, all ranges ------------
    maxlen = 7 if quick else 9
    rcases = []
    for n in range(1, maxlen + 1):
        for data in itertools.product((0, 1, 2), repeat=n):
            rcases.append({"data": list(data)})
    ctx.dist["rmq_all"] = {"arrays": len(rcases), "max_length": maxlen,
                           "ranges": sum((len(c["data"]) + 1) ** 2 for c in rcases),
                           "empty_or_reversed_ranges": sum((len(c["data"]) + 1) * (len(c["data"]) + 2) // 2 for c in rcases)}
    yield Batch(
        name="rmq_all", header=HEADER_RMQ, run="run_all", eqb=EQB_RMQ,
        ty_in="list Z", ty_out="option (list Z)",
        cases=rcases, impl=impl_rmq,
        enc_in=lambda c: clist(str(v) for v in c["data"]) + "%Z",
        enc_out=enc_out_rmq, oracle=oracle_rmq,
        nontrivial=lambda c, r: len(c["data"]) >= 2,
        exhaustive=True, shard=250 if quick else 700,
        describe=f"every non-empty array over {{0,1,2}} up to length {maxlen}, every (start, stop) with 0 <= start, stop <= n",
    )

    # 2. range-minimum queries: random arrays, explicit (also malformed) queries --
    qcases = [{"data": [], "queries": []}]            # the constructor must raise on an empty array
    kinds = {"in_range": 0, "empty_or_reversed": 0, "out_of_range": 0, "empty_array": 1}
    for _ in range(600 if quick else 6000):
        n = rng.choice([1, 2, 3, 4, 5, 7, 8, 9, 15, 16, 17, 31, 32, 33, 40, rng.randint(1, 40)])
        alpha = rng.choice([2, 3, 10, 1000])
        data = [rng.randrange(alpha) for _ in range(n)]
        qs = []
        for _ in range(40):
            r = rng.random()
            if r < 0.7:
                i = rng.randrange(n)
                j = rng.randint(i + 1, n)
                kinds["in_range"] += 1
            elif r < 0.85:
                j = rng.randint(0, n + 2)
                i = rng.randint(j, n + 3)
                kinds["empty_or_reversed"] += 1
            else:
                i = rng.randint(0, n + 1)
                j = rng.randint(max(i, n) + 1, n + 2 + n // 2)
                kinds["out_of_range"] += 1
            qs.append([i, j])
        qcases.append({"data": data, "queries": qs})
    ctx.dist["rmq_random"] = kinds
    empty_exc = impl_rmq(qcases[0])["built"]
    ctx.dist["rmq_random"]["empty_array_constructor"] = empty_exc if empty_exc is not True else "accepted (no exception)"
    yield Batch(
        name="rmq_random", header=HEADER_RMQ, run="run_some", eqb=EQB_RMQ,
        ty_in="list Z * list (nat * nat)", ty_out="option (list Z)",
        cases=qcases, impl=impl_rmq,
        enc_in=lambda c: cpair(clist(str(v) for v in c["data"]) + "%Z",
                               clist(cpair(cn(i), cn(j)) for i, j in c["queries"])),
        enc_out=enc_out_rmq, oracle=oracle_rmq,
        nontrivial=lambda c, r: len(c["data"]) >= 2,
        exhaustive=False, shard=25,
        describe="the empty array (constructor raises), random arrays up to length 40 (lengths around powers of two favoured) with "
                 "40 in-range / empty / reversed / out-of-range queries each",
    )

    # 3. trees: exhaustive shapes, all pairs and triples ---------------------------
    maxn = 6 if quick else 7
    tcases = []
    for n in range(1, maxn + 1):
        for s in shapes(n):
            tcases.append({"shape": s, "queries": _all_queries(s)})
    ctx.dist["lca_all"] = {"shapes": len(tcases), "max_nodes": maxn, "queries": sum(len(c["queries"]) for c in tcases)}
    yield Batch(
        name="lca_all", header=HEADER_LCA, run="run_lca", eqb=EQB_LCA,
        ty_in="rose * list qry", ty_out="option (list (option (list Z)))",
        cases=tcases, impl=impl_lca, enc_in=enc_in_lca, enc_out=enc_out_lca, oracle=oracle_lca,
        nontrivial=lambda c, r: sum(1 for _ in shape_paths(c["shape"])) >= 3,
        exhaustive=True, shard=6 if quick else 8,
        describe=f"every rooted ordered tree shape up to {maxn} nodes; every node (LCA, level), every ordered pair "
                 "(LCA, ancestor, strict ancestor, comparable, distance), every ordered triple (LCA)",
    )

    # 4. trees: random shapes up to 40 nodes, random + malformed queries -----------
    xcases = []
    styles = {}
    for _ in range(160 if quick else 1500):
        n = rng.choice([8, 12, 16, 17, 24, 32, 33, 40, rng.randint(7, 40)])
        style, s = random_shape(rng, n)
        styles[style] = styles.get(style, 0) + 1
        xcases.append({"shape": s, "queries": _random_queries(rng, s, 150)})
    probe = impl_lca({"shape": [[], []], "queries": [["lca", []], ["lca", [[9]]], ["level", [9]]]})
    ctx.dist["lca_random"] = {"styles": styles, "queries": sum(len(c["queries"]) for c in xcases),
                              "malformed_per_tree": 7,
                              "exceptions_observed": {"no_argument": probe["answers"][0] if probe["answers"] else probe["built"],
                                                      "foreign_node": probe["answers"][1] if probe["answers"] else probe["built"],
                                                      "level_of_foreign_node": probe["answers"][2] if probe["answers"] else probe["built"]}}
    yield Batch(
        name="lca_random", header=HEADER_LCA, run="run_lca", eqb=EQB_LCA,
        ty_in="rose * list qry", ty_out="option (list (option (list Z)))",
        cases=xcases, impl=impl_lca, enc_in=enc_in_lca, enc_out=enc_out_lca, oracle=oracle_lca,
        nontrivial=lambda c, r: True,
        exhaustive=False, shard=6 if quick else 30,
        describe="random trees of 7-40 nodes (random recursive, deep, wide, caterpillar, complete binary) with 150 random queries "
                 "(LCA of 1-5 nodes, ancestor tests biased to related nodes, level, distance) and 7 malformed ones (no argument, foreign node)",
    )


TECHNIQUE = ("translator tie: the source module is regenerated into Gallina on every run and proved equal to the model; Coq proof (induction on the sparse-table depth; nested induction on rose trees for the Euler tour) of model = specification "
             "on root paths; model tied to the code by exhaustive small-domain + random correspondence evaluated with vm_compute")
LEVEL_TEXT = ("Both halves of the code are tied to the models by translation: RangeMinQuery (Gen/RmqGen.v) and _euler_tour + LowestCommonAncestor (Gen/LcaGen.v: constructor, query, is_ancestor_of, is_strict_ancestor_of, is_comparable, level, distance) are regenerated from the source on every run and proved equal to the hand-written models for all trees with distinct node identities and all queries, error cases included. Machine-checked theorems for trees of any arity and size and arrays of any length: the range-minimum query returns an element of "
              "exactly data[i..j) that is <= all of them (None for an empty range); the LCA query on any non-empty list of nodes returns the longest "
              "common prefix of their root paths (= the deepest common ancestor); ancestor / strict ancestor / comparable / level / distance equal "
              "prefix / strict prefix / either prefix / length / |p|+|q|-2|lcp|; Python's tuple comparison never reaches the nodes. "
              "The Gallina models are compared with utils/range_min_query.py and utils/trees.py on every tree shape up to 6 (quick) / 7 (thorough) nodes "
              "with all pairs and triples, random trees to 40 nodes, every array over {0,1,2} up to length 7/9 with every range, and malformed inputs.")
LEVEL_NOTE = ("Trusted: Coq kernel; the translator pyfun.py (fail-closed, declared type table); the two hand-written models (correspondence is differential testing on the explored domain, not proof); "
              "ete3 nodes compare by identity; negative indices are outside the model (nat). All theorems closed under the global context (no axioms).")
