"""C19 — topological orderings are enumerated completely and without repetition."""
from __future__ import annotations

import itertools
import json
import signal

from ..core import Batch, ToolingError, clist, cnat, cpair

ID = "C19"
LEVEL = "proof"
PROP_FILE = "Properties/C19.v"
PROOF_FILES = ["Gen/ToposortGen.v", "Proofs/ToposortGenProofs.v", "Proofs/ToposortProofs.v", "Model/Toposort.v", "Proofs/SubseqProofs.v", "Model/Subseq.v"]
TRUSTED = [
    "translator translator/pyfun.py + the type table in translator/toposort_gen.py: toposort, toposort_all and _toposort_all_bt of utils/toposort.py are translated into Gen/ToposortGen.v on every run (dict = association list in insertion order, recorded set iteration orders as inputs, the iteration order of sets built by the code as a parameter) and proved equal to Model/Toposort.v",
    "model Model/Toposort.v of utils/toposort.py (Kahn's deque loop; backtracking with explicit decrement, "
    "recursive call and re-increment of the in-degree dict; final length test and reversal) and of "
    "_make_prec_graph in compute/super_reconciliation.py",
    "dict key order and set iteration orders are recorded from the running implementation "
    "(list(graph), list(graph[k])) and handed to the model as explicit lists",
]
ASSUMES = [
    "a graph is a dict whose values are sets (or duplicate-free or even duplicated lists: the theorems count "
    "in-degrees with multiplicity) of hashable nodes, every successor being itself a key (otherwise KeyError, "
    "reproduced by the model)",
    "iterating twice over an unmodified Python set yields the same order",
]
RULE = ("digraph cases: every digraph on n labelled vertices (self-loops allowed) for n up to the tier's bound, given as "
        "adjacency lists, plus random digraphs on up to 7 vertices with integer, colliding-integer and string labels and a "
        "malformed stream with a successor that is not a key; non-trivial = at least two vertices and one edge; "
        "prec-graph cases: families of leaf syntenies; non-trivial = at least two syntenies sharing a family")
OPEN_GOALS: list = []

HEADER = r"""From SR Require Import Model.Toposort.
Definition eqb_ln (a b : list nat) : bool := if list_eq_dec Nat.eq_dec a b then true else false.
Definition eqb_lln (a b : list (list nat)) : bool := if list_eq_dec (list_eq_dec Nat.eq_dec) a b then true else false.
Definition eqb_res {A} (e : A -> A -> bool) (x y : tres A) : bool :=
  match x, y with
  | TOk a, TOk b => e a b
  | TKeyError, TKeyError => true
  | TValueError, TValueError => true
  | TIndexError, TIndexError => true
  | TOutOfFuel, TOutOfFuel => true
  | _, _ => false
  end.
Definition eqb_opt (x y : option (list nat)) : bool :=
  match x, y with Some a, Some b => eqb_ln a b | None, None => true | _, _ => false end.
Fixpoint lex_leb (a b : list nat) : bool :=
  match a, b with
  | [], _ => true
  | _ :: _, [] => false
  | x :: a', y :: b' => if x <? y then true else if y <? x then false else lex_leb a' b'
  end.
Fixpoint ins_l (x : list nat) (l : list (list nat)) : list (list nat) :=
  match l with [] => [x] | y :: l' => if lex_leb x y then x :: l else y :: ins_l x l' end.
Definition sort_l (l : list (list nat)) : list (list nat) := fold_right ins_l [] l.
Fixpoint ins_n (x : nat) (l : list nat) : list nat :=
  match l with [] => [x] | y :: l' => if x <=? y then x :: l else y :: ins_n x l' end.
Definition sort_n (l : list nat) : list nat := fold_right ins_n [] l.
Fixpoint eqb_graph (a b : graph) : bool :=
  match a, b with
  | [], [] => true
  | (k, s) :: a', (k', s') :: b' => Nat.eqb k k' && eqb_ln s s' && eqb_graph a' b'
  | _, _ => false
  end.
Definition tmap {A B} (f : A -> B) (x : tres A) : tres B :=
  match x with TOk a => TOk (f a) | TKeyError => TKeyError | TValueError => TValueError
             | TIndexError => TIndexError | TOutOfFuel => TOutOfFuel end.
"""


def _impl():
    from superrec2.utils import toposort as T
    return T


class _Timeout(Exception):
    pass


def _guard(fn, *a):
    """Run fn(*a); map exceptions to a small enum; a 10 s alarm stops a runaway loop."""
    def onalarm(signum, frame):
        raise _Timeout()
    old = signal.signal(signal.SIGALRM, onalarm)
    signal.setitimer(signal.ITIMER_REAL, 10.0)
    try:
        return fn(*a)
    except KeyError:
        return "KeyError"
    except ValueError:
        return "ValueError"
    except IndexError:
        return "IndexError"
    except _Timeout:
        return "Other:timeout"
    except Exception as e:  # noqa: BLE001 - any other failure is reported as such
        return "Other:" + type(e).__name__
    finally:
        signal.setitimer(signal.ITIMER_REAL, 0)
        signal.signal(signal.SIGALRM, old)


# vertex names need only be hashable: the exotic ones are written "@k" in the (JSON) case and decoded here
_EXOTIC = [None, "", (), ("a", 1), 2.5, frozenset({1}), b"x", False, (None,), float("inf")]


def _label(x):
    # JSON turns nothing else here into something else: labels are ints or strs
    if isinstance(x, str) and x.startswith("@") and x[1:].isdigit():
        return _EXOTIC[int(x[1:])]
    return x


def _build(case):
    """case = [[label, [successor labels]], ...] -> the dict of sets handed to the implementation."""
    return {_label(k): set(_label(s) for s in ss) for k, ss in case}


def _record(graph):
    """Index nodes by dict order (non-key successors after the keys, by first appearance) and
    return the graph as [[key index, [successor indexes in the set's iteration order]], ...]."""
    idx = {}
    for k in graph:
        idx[k] = len(idx)
    rec = []
    for k in graph:
        row = []
        for s in graph[k]:
            if s not in idx:
                idx[s] = len(idx)
            row.append(idx[s])
        rec.append([idx[k], row])
    return rec, idx


_REC: dict = {}


def _ckey(case) -> str:
    return json.dumps(case, sort_keys=True)


# --- independent oracle (straight from the property text) -------------------

def _all_orders(rec):
    """Permutation filter: every arrangement of the vertices in which each edge goes forward."""
    verts = [k for k, _ in rec]
    edges = [(k, s) for k, ss in rec for s in ss]
    out = []
    for p in itertools.permutations(verts):
        pos = {v: i for i, v in enumerate(p)}
        if all(pos[u] < pos[v] for u, v in edges):
            out.append(list(p))
    return sorted(out)


def _wellformed(rec):
    n = len(rec)
    return all(s < n for _, ss in rec for s in ss)


def _c_graph(rec) -> str:
    return clist(cpair(cnat(k), clist(map(cnat, ss))) for k, ss in rec)


def _c_res(r, ok) -> str:
    if isinstance(r, str):
        return {"KeyError": "TKeyError", "ValueError": "TValueError"}.get(r, "TIndexError")
    return f"(TOk {ok(r)})"


def _gen_exhaustive(nmax):
    cases = []
    for n in range(nmax + 1):
        for bits in range(1 << (n * n)):
            cases.append([[u, [v for v in range(n) if bits >> (u * n + v) & 1]] for u in range(n)])
    return cases


_LABEL_FAMILIES = [
    lambda n, rng: list(range(n)),
    lambda n, rng: rng.sample(range(20), n),
    lambda n, rng: [8 * i for i in rng.sample(range(12), n)],          # collide in an 8-slot set table
    lambda n, rng: rng.sample(["a", "b", "c", "d", "e", "f", "g", "x1", "x2", "fam10", "fam2"], n),
    lambda n, rng: rng.sample([-1, -2, 0, 7, 15, 16, 31, 32, 1 << 40, "z"], n),
    # any hashable value is a legal vertex name: None, empty string and tuple, floats, frozensets, bytes, booleans
    lambda n, rng: rng.sample(["@0", "@1", "@2", "@3", "@4", "@5", "@6", "@7", "@8", "@9", 1, "n"], n),
    lambda n, rng: rng.sample(["@0", "@1", "@2", "@7", 3, "q", "@8"], n),
]


def _small_at_sample_points(cases):
    """core.run_batch copies cases 0, n/2 and n-1 into the evidence file: keep those small."""
    small = [i for i, c in enumerate(cases) if len(c) <= 4]
    for pos in sorted({0, len(cases) // 2, len(cases) - 1}):
        if len(cases[pos]) > 4 and small:
            j = small.pop()
            cases[pos], cases[j] = cases[j], cases[pos]
    return cases


def _gen_random(rng, count, malformed=False):
    cases = []
    for _ in range(count):
        n = rng.randint(1, 7)
        labels = rng.choice(_LABEL_FAMILIES)(n, rng)
        kind = rng.random()
        if kind < 0.55:      # DAG along a hidden order, density chosen to keep the number of orderings moderate
            order = labels[:]
            rng.shuffle(order)
            dens = rng.choice([0.25, 0.4, 0.6, 0.85]) if n >= 6 else rng.choice([0.1, 0.3, 0.5, 0.8])
            pos = {v: i for i, v in enumerate(order)}
            adj = {u: [v for v in labels if pos[u] < pos[v] and rng.random() < dens] for u in labels}
        elif kind < 0.8:     # arbitrary digraph (mostly cyclic)
            dens = rng.choice([0.1, 0.2, 0.35])
            adj = {u: [v for v in labels if rng.random() < dens] for u in labels}
        else:                # DAG plus one back edge or self-loop
            order = labels[:]
            rng.shuffle(order)
            pos = {v: i for i, v in enumerate(order)}
            adj = {u: [v for v in labels if pos[u] < pos[v] and rng.random() < 0.4] for u in labels}
            u = rng.choice(labels)
            v = rng.choice([w for w in labels if pos[w] <= pos[u]])
            if v not in adj[u]:
                adj[u].append(v)
        if malformed:
            u = rng.choice(labels)
            adj[u].append("missing" if rng.random() < 0.5 else 99)
        for u in labels:
            rng.shuffle(adj[u])
        keys = labels[:]
        rng.shuffle(keys)
        cases.append([[u, adj[u]] for u in keys])
    return _small_at_sample_points(cases)


def _bucket(n: int) -> str:
    for hi, lab in ((0, "0"), (1, "1"), (5, "2-5"), (23, "6-23"), (119, "24-119")):
        if n <= hi:
            return lab
    return "120+"


def _digraph_batch(ctx, name, cases, exhaustive, describe, shard):
    T = _impl()
    obs = {"orderings_returned": {}, "toposort_none": 0, "toposort_some": 0, "raised": 0,
           "successor_set_order_not_ascending": 0}
    ctx.dist[name + "_observed"] = obs

    def impl(case):
        graph = _build(case)
        rec, idx = _record(graph)
        _REC[_ckey(case)] = rec

        def norm_one(r):
            if r is None or isinstance(r, str):
                return r
            return [idx.get(x, -1) for x in r]

        one = norm_one(_guard(T.toposort, graph))
        al = _guard(T.toposort_all, graph)
        if not isinstance(al, str):
            al = sorted([idx.get(x, -1) for x in o] for o in al)
        if isinstance(al, str) or isinstance(one, str):
            obs["raised"] += 1
        else:
            b = _bucket(len(al))
            obs["orderings_returned"][b] = obs["orderings_returned"].get(b, 0) + 1
            obs["toposort_none" if one is None else "toposort_some"] += 1
        if any(ss != sorted(ss) for _, ss in rec):
            obs["successor_set_order_not_ascending"] += 1
        rec2, _ = _record(graph)
        if rec2 != rec:
            raise ToolingError(f"iteration order of an unmodified graph changed or the implementation mutated its input: {case}")
        return {"graph": rec, "toposort": one, "toposort_all": al}

    def enc_in(case):
        rec = _REC.get(_ckey(case))
        if rec is None:
            rec = _record(_build(case))[0]
        return _c_graph(rec)

    def ok_nat(x):
        return cnat(x) if 0 <= x < 5000 else "4999%nat"

    def enc_out(case, r):
        c_one = _c_res(r["toposort"], lambda l: "None" if l is None else f"(Some {clist(map(ok_nat, l))})")
        c_all = _c_res(r["toposort_all"], lambda ll: clist(clist(map(ok_nat, l)) for l in ll))
        return cpair(c_one, c_all)

    def oracle(case, r):
        rec = r["graph"]
        if not _wellformed(rec):
            return True, "a successor is not a vertex of the graph: outside the property's domain"
        want = _all_orders(rec)
        got = r["toposort_all"]
        if got != want:
            if isinstance(got, str):
                return False, f"all-orderings routine raised {got}; the graph has {len(want)} topological orderings"
            missing = [o for o in want if o not in got]
            extra = [o for o in got if o not in want]
            dup = [o for o in want if got.count(o) > 1]
            return False, (f"all-orderings routine returned {len(got)} orderings, the graph has {len(want)} "
                           f"(missing e.g. {missing[:2]}, not an ordering e.g. {extra[:2]}, repeated e.g. {dup[:2]}); "
                           f"vertices are numbered by dict order")
        one = r["toposort"]
        if want:
            if one not in want:
                return False, f"single-ordering routine returned {one}, which is not one of the {len(want)} topological orderings"
        elif one is not None:
            return False, f"single-ordering routine returned {one} although the graph has a cycle"
        return True, "both routines meet the property on this graph"

    def nontrivial(case, r):
        rec = r["graph"]
        return _wellformed(rec) and len(rec) >= 2 and any(ss for _, ss in rec)

    return Batch(
        name=name, header=HEADER,
        run="fun g => (toposort g, tmap sort_l (toposort_all g))",
        eqb="fun a b => eqb_res eqb_opt (fst a) (fst b) && eqb_res eqb_lln (snd a) (snd b)",
        ty_in="graph", ty_out="tres (option (list nat)) * tres (list (list nat))",
        cases=cases, impl=impl, enc_in=enc_in, enc_out=enc_out, oracle=oracle,
        nontrivial=nontrivial, exhaustive=exhaustive, shard=shard, describe=describe,
    )


def _stats(ctx, name, cases):
    """Input distribution, measured with the oracle's own notions on the generated adjacency lists."""
    d = {"by_vertices": {}, "acyclic": 0, "cyclic": 0, "self_loop": 0, "malformed": 0}
    for case in cases:
        n = len(case)
        d["by_vertices"][str(n)] = d["by_vertices"].get(str(n), 0) + 1
        keys = [k for k, _ in case]
        if any(s not in keys for _, ss in case for s in ss):
            d["malformed"] += 1
            continue
        if any(k in ss for k, ss in case):
            d["self_loop"] += 1
        # Kahn-free acyclicity test: repeatedly strip vertices without predecessors
        left = {k: set(ss) for k, ss in case}
        while True:
            src = [k for k in left if not any(k in ss for ss in left.values())]
            if not src:
                break
            for k in src:
                del left[k]
        d["cyclic" if left else "acyclic"] += 1
    ctx.dist[name] = d


def pre_build(ctx):
    from translator import toposort_gen
    from .. import core
    changed = toposort_gen.regenerate(core.REPO)
    ctx.notes.append("Gen/ToposortGen.v " + ("regenerated (content changed)" if changed else "regenerated: unchanged"))


def batches(ctx):
    rng = ctx.rng
    quick = ctx.quick()

    # 1. every digraph on few labelled vertices ------------------------------------
    nmax = 3 if quick else 4
    ex = _gen_exhaustive(nmax)
    _stats(ctx, "exhaustive", ex)
    yield _digraph_batch(ctx, "digraphs_exhaustive", ex, True,
                         f"all digraphs (self-loops allowed) on 0..{nmax} labelled vertices: {len(ex)} graphs", 4200)

    # 2. random digraphs, varied labels (varied set iteration orders) -----------------
    n_rand = 1500 if quick else 20000
    rnd = _gen_random(rng, n_rand)
    _stats(ctx, "random", rnd)
    yield _digraph_batch(ctx, "digraphs_random", rnd, False,
                         f"{n_rand} random digraphs on 1..7 vertices (DAGs of varied density, arbitrary digraphs, DAG + one back edge), "
                         "integer / colliding-integer / string labels, shuffled key and successor insertion orders", 700)

    # 3. malformed stream: a successor that is not a key ----------------------------------
    n_mal = 200 if quick else 2000
    mal = _gen_random(rng, n_mal, malformed=True)
    _stats(ctx, "malformed", mal)
    yield _digraph_batch(ctx, "digraphs_malformed", mal, False,
                         f"{n_mal} random digraphs with one successor that is not a key (KeyError expected from both routines)", 700)

    # 4. _make_prec_graph and the root orderings it induces ----------------------------------
    b = _prec_batch(ctx, 800 if quick else 8000)
    if b is not None:
        yield b


def _is_subseq(ch, pa):
    it = iter(pa)
    return all(x in it for x in ch)


def _prec_batch(ctx, count):
    rng = ctx.rng
    T = _impl()
    try:
        from superrec2.compute import super_reconciliation as SR
        make = SR._make_prec_graph
    except Exception as e:  # noqa: BLE001 - private helper renamed: secondary comparison skipped, recorded
        ctx.notes.append(f"_make_prec_graph not importable ({type(e).__name__}); prec-graph comparison skipped")
        return None
    cases = []
    for _ in range(count):
        nf = rng.randint(1, 6)
        hidden = list(range(nf))
        rng.shuffle(hidden)
        leaves = []
        for _ in range(rng.randint(1, 4)):
            k = rng.random()
            if k < 0.75:     # sub-sequence of the hidden order
                s = [f for f in hidden if rng.random() < 0.6] or [rng.choice(hidden)]
            elif k < 0.93:   # inconsistent order
                s = rng.sample(hidden, rng.randint(1, nf))
            elif k < 0.98:   # repeated family
                s = [rng.choice(hidden) for _ in range(rng.randint(2, 4))]
            else:            # empty synteny -> IndexError
                s = []
            leaves.append(s)
        cases.append(leaves)

    def impl(leaves):
        mapping = {f"leaf{i}": list(s) for i, s in enumerate(leaves)}
        prec = _guard(make, mapping)
        if isinstance(prec, str):
            return {"prec": prec, "orders": None}
        out = [[k, sorted(prec[k])] for k in prec]
        orders = _guard(T.toposort_all, prec)
        if not isinstance(orders, str):
            orders = sorted(list(o) for o in orders)
        return {"prec": out, "orders": orders}

    def enc_out(leaves, r):
        return _c_res(r["prec"], _c_graph)

    def oracle(leaves, r):
        if any(not s for s in leaves):
            return True, "empty leaf synteny: outside the domain"
        fams = sorted({f for s in leaves for f in s})
        want = sorted(list(p) for p in itertools.permutations(fams) if all(_is_subseq(s, p) for s in leaves))
        if r["orders"] != want:
            return False, (f"root orderings {r['orders']} differ from the arrangements of the families in which every "
                           f"leaf synteny is a sub-sequence: {want}")
        return True, "root orderings are exactly the common super-sequences that are arrangements of the family set"

    ctx.dist["prec_graph"] = {
        "cases": len(cases),
        "with_empty_synteny": sum(any(not s for s in c) for c in cases),
        "with_repeated_family": sum(any(len(set(s)) != len(s) for s in c) for c in cases),
    }
    return Batch(
        name="prec_graph", header=HEADER,
        run="fun ls => tmap (map (fun p : nat * list nat => (fst p, sort_n (snd p)))) (make_prec_graph ls)",
        eqb="eqb_res eqb_graph",
        ty_in="list (list nat)", ty_out="tres graph",
        cases=cases, impl=impl,
        enc_in=lambda leaves: clist(clist(map(cnat, s)) for s in leaves),
        enc_out=enc_out, oracle=oracle,
        nontrivial=lambda leaves, r: len(leaves) >= 2 and any(set(a) & set(b) for a, b in itertools.combinations(leaves, 2)),
        exhaustive=False, shard=2000,
        describe=f"{count} random families of 1..4 leaf syntenies over up to 6 gene families (sub-sequences of a hidden order, "
                 "inconsistent orders, repeated families, empty syntenies)",
    )


def _count_orderings(n, edges):
    """number of topological orderings of the DAG (0 if cyclic): dynamic programme over vertex subsets"""
    pred = [0] * n
    for u, v in edges:
        pred[v] |= 1 << u
    f = [0] * (1 << n)
    f[0] = 1
    for mask in range(1 << n):
        if f[mask]:
            for v in range(n):
                if not mask >> v & 1 and pred[v] & ~mask == 0:
                    f[mask | 1 << v] += f[mask]
    return f[(1 << n) - 1]


def search(ctx):
    """the tie is broken but no small graph shows a wrong answer: sparse graphs on 8-9 vertices, whose tens of thousands of
    orderings are counted independently (subset DP) and checked one by one (each a permutation of the vertices with every
    edge forward, no ordering twice)"""
    import time
    from ..core import Finding
    T = _impl()
    rng = ctx.rng
    t0 = time.time()
    budget = 100 if ctx.quick() else 600
    n_graphs = 0
    while time.time() - t0 < budget:
        n = rng.choice([8, 8, 9])
        k = rng.randint(0, 3 if n == 8 else 6)
        order = list(range(n))
        rng.shuffle(order)
        pos = {v: i for i, v in enumerate(order)}
        edges = set()
        while len(edges) < k:
            u, v = rng.sample(range(n), 2)
            if pos[u] < pos[v]:
                edges.add((u, v))
        want = _count_orderings(n, edges)
        if want > 130000:
            continue
        graph = {u: {v for a, v in edges if a == u} for u in range(n)}
        n_graphs += 1
        ctx.evaluations += 1
        case = [[u, sorted(graph[u])] for u in range(n)]
        try:
            res = T.toposort_all(graph)
        except Exception as e:  # noqa: BLE001
            return Finding("search", case, {"error": type(e).__name__}, "(independent count)", False, f"toposort_all raised {type(e).__name__}")
        ok = all(sorted(o) == list(range(n)) and all(o.index(u) < o.index(v) for u, v in edges) for o in res)
        if len(res) != want or len({tuple(o) for o in res}) != len(res) or not ok:
            return Finding("search", case, {"returned": len(res)}, "(independent count)", False,
                           f"toposort_all returned {len(res)} orderings ({len({tuple(o) for o in res})} distinct, all valid: {ok}); the graph has {want}")
    ctx.notes.append(f"failing-input search: {n_graphs} sparse graphs on 8-9 vertices, orderings counted and checked: none wrong")
    return None


def replay_case(payload):
    case = payload["case"]
    T = _impl()
    n = len(case)
    edges = {(u, v) for u, ss in case for v in ss}
    graph = {u: set(ss) for u, ss in case}
    res = T.toposort_all(graph)
    want = _count_orderings(n, edges)
    ok = len(res) == want and len({tuple(o) for o in res}) == len(res)
    return ok, f"toposort_all returned {len(res)} orderings; the graph has {want}", {"returned": len(res)}


TECHNIQUE = ("Coq proof (induction on fuel and lists; invariant: in-degree = number of unplaced predecessors) that the model of "
             "toposort / toposort_all meets the permutation-with-forward-edges specification for every graph and every set iteration "
             "order; model tied to the code by exhaustive small-domain + random correspondence evaluated with vm_compute")
LEVEL_TEXT = ("toposort, toposort_all and _toposort_all_bt are translated from the source on every run and proved EQUAL to the model (Kahn unconditionally; the enumeration for every iteration order of the sets built by the code, errors included). Machine-checked theorems, for graphs of any size with distinct keys whose successors are keys and for every iteration "
              "order of the sets: an ordering is returned by toposort_all iff it is a topological ordering (arrangement of the vertices "
              "with every edge forward), the returned list is duplicate-free, it is empty when no ordering exists, toposort returns a "
              "topological ordering when it returns one and None only if none exists; neither routine raises or runs out of fuel; "
              "a successor that is not a key yields KeyError in both; link lemma root_orders: the orderings of _make_prec_graph(leaves) "
              "are exactly the duplicate-free arrangements of the families of which every leaf synteny is a sub-sequence. "
              "The Gallina model is compared with utils/toposort.py on every digraph with self-loops on <= 3 (quick) / <= 4 (thorough) "
              "labelled vertices and on random digraphs up to 7 vertices with recorded dict/set iteration orders (toposort compared "
              "exactly, toposort_all as a sorted list), and with _make_prec_graph on random leaf-synteny families.")
LEVEL_NOTE = ("Trusted: Coq kernel; the hand-written model (correspondence is differential testing on the explored domain, not proof); "
              "Python set iteration being stable on an unmodified set. The model iterates the `starts` set of _toposort_all_bt in list "
              "order; the theorems are proved for every iteration-order function, and the comparison of toposort_all is order-insensitive. "
              "All theorems closed under the global context (no axioms).")
