"""C08 — polytomies: every binary refinement exactly once."""
from __future__ import annotations

import itertools
import os

os.environ.setdefault("TQDM_DISABLE", "1")

from ..core import Batch, cN, cZ, cbool, clist, cnat, copt, cpair

ID = "C08"
LEVEL = "proof"
PROP_FILE = "Properties/C08.v"
PROOF_FILES = ["Proofs/PolyBoundProofs.v", "Proofs/FiniteCostProofs.v", "Proofs/BinarizeProofs.v", "Model/Binarize.v", "Model/Poly.v", "Proofs/PolyProofs.v", "Proofs/PolyInvProofs.v", "Proofs/Meta2Proofs.v", "Proofs/SpfsFinal.v", "Proofs/UspfsFinal.v"]
TRUSTED = [
    "model Model/Binarize.v of utils/trees.py (is_binary, graft, arrange_leaves, binarize) and "
    "ReconciliationInput.binarize: already-resolved child subtrees are atoms; the literal variant with an explicit `ignore` "
    "list is proved equal to it (C08_ignore_set_is_atoms) for every id comparison under which equal topology ids imply "
    "equal leaf sets (true of ete3's md5 get_topology_id barring collisions)",
    "batch `extended_solvers` has no Gallina solver model: the expected value handed to Coq is computed by running the "
    "implementation's own solver on every refinement pair produced by the harness's independent refinement generator",
]
ASSUMES = [
    "leaf names are pairwise distinct (then no subtree made of two or more atoms shares the md5 topology id of an atom)",
    "a node's features are only ever copied as a whole bundle (name, colour): modelled as one label per node",
    "ete3 Tree.copy() and newick write/parse (format 8 -> format 1, features=['color']) preserve names and colours",
]
RULE = (
    "enumerator: every ordered rose-tree shape (all arities >= 2) with up to 5 (quick) / 6 (thorough) distinctly named leaves, "
    "each with all internal nodes named and with a random subset named, plus every shape with unary nodes up to 4 leaves; "
    "non-trivial = at least one node with more than two children; "
    "inputs: pairs of such trees (<= 4/5 leaves) with names and NHX colours on internal nodes, random leaf assignments and "
    "syntenies, non-trivial = some polytomy and some named or coloured internal node; "
    "end-to-end: object and species trees of at most 4 leaves with at least one polytomy overall, syntenies over <= 3 families, "
    "several cost vectors, both extended solvers under policy ALL; non-trivial = more than one refinement pair and a positive optimum"
)
OPEN_GOALS: list = []

HEADER = "From SR Require Import Model.Binarize.\n"

LEAFNAMES = "abcdefgh"
BAD = 4999  # label code for a bundle that does not exist in the input


# --------------------------------------------------------------------------
# trees as JSON: node = [name, colour, children]; a leaf has children == []


def _compositions(n, k):
    if k == 1:
        yield (n,)
        return
    for first in range(1, n - k + 2):
        for rest in _compositions(n - first, k - 1):
            yield (first,) + rest


_shape_memo = {}


def shapes(n, unary=0):
    """All ordered rose-tree shapes with n leaves; `unary` = maximal number of
    single-child nodes on any root-to-leaf path segment above a branching."""
    key = (n, unary)
    if key in _shape_memo:
        return _shape_memo[key]
    out = []
    if n == 1:
        out.append([])
    if unary > 0:
        for s in shapes(n, unary - 1):
            out.append([s])
    for k in range(2, n + 1):
        for comp in _compositions(n, k):
            for kids in itertools.product(*(shapes(m, unary) for m in comp)):
                out.append(list(kids))
    # remove duplicates introduced by the unary budget
    seen, uniq = set(), []
    for s in out:
        r = repr(s)
        if r not in seen:
            seen.add(r)
            uniq.append(s)
    _shape_memo[key] = uniq
    return uniq


def label_shape(shape, leafnames, name_of_internal, colour_of_internal=lambda i: None):
    """shape -> [name, colour, children] with leaves named left to right."""
    counter = {"leaf": 0, "int": 0}

    def go(s):
        if not s:
            nm = leafnames[counter["leaf"]]
            counter["leaf"] += 1
            return [nm, None, []]
        i = counter["int"]
        counter["int"] += 1
        node = [name_of_internal(i), colour_of_internal(i), None]
        node[2] = [go(c) for c in s]
        return node

    return go(shape)


def newick(node):
    name, colour, kids = node
    s = ("(" + ",".join(newick(k) for k in kids) + ")") if kids else ""
    s += name
    if colour:
        s += f"[&&NHX:color={colour}]"
    return s


def build(node):
    from ete3 import Tree
    return Tree(newick(node) + ";", format=1)


def canon(t, rename=lambda n: n):
    """ete3 node -> [name, colour, children] (child order kept)."""
    nm = t.name
    if nm == "NoName":
        nm = ""
    return [rename(nm), getattr(t, "color", None), [canon(c, rename) for c in t.children]]


def nodes_of(node):
    yield node
    for k in node[2]:
        yield from nodes_of(k)


def leaves_of(node):
    return [n[0] for n in nodes_of(node) if not n[2]]


def has_polytomy(node):
    return any(len(n[2]) > 2 for n in nodes_of(node))


def has_unary(node):
    return any(len(n[2]) == 1 for n in nodes_of(node))


def tree_is_binary(node):
    return all(len(n[2]) in (0, 2) for n in nodes_of(node))


# --------------------------------------------------------------------------
# Gallina encodings


def bundle_codes(*trees, extra=None):
    """Deterministic code for every distinct (name, colour[, extra leaf data]) bundle of the inputs."""
    codes = {}
    for t in trees:
        for n in nodes_of(t):
            b = _bundle(n, extra)
            if b is not None and b not in codes:
                codes[b] = len(codes)
    return codes


def _bundle(n, extra=None):
    name, colour, kids = n
    if not kids and extra is not None:
        return (name, colour, repr(extra.get(name)))
    if name == "" and colour is None:
        return None
    return (name, colour)


def enc_lab(n, codes, extra=None):
    b = _bundle(n, extra)
    if b is None:
        return "None"
    return copt(cnat(codes.get(b, BAD)))


def enc_rose(n, codes, extra=None):
    if not n[2]:
        return f"(RLeaf {enc_lab(n, codes, extra)})"
    return f"(RNode {enc_lab(n, codes, extra)} {clist(enc_rose(k, codes, extra) for k in n[2])})"


def enc_bt(n, codes, extra=None):
    if not n[2]:
        return f"(BLeaf {enc_lab(n, codes, extra)})"
    assert len(n[2]) == 2
    return f"(BNode {enc_lab(n, codes, extra)} {enc_bt(n[2][0], codes, extra)} {enc_bt(n[2][1], codes, extra)})"


# --------------------------------------------------------------------------
# independent oracle, written from the property text: the binary refinements of
# a tree, built by recursive bipartition of the children (not by leaf insertion)


def _binary_over(items):
    """every binary tree (unordered) over the items, each once: the first item
    always goes left, every proper subset of the others joins it."""
    if len(items) == 1:
        yield items[0]
        return
    first, rest = items[0], items[1:]
    for mask in range(2 ** len(rest) - 1):
        left = [first] + [rest[i] for i in range(len(rest)) if mask >> i & 1]
        right = [rest[i] for i in range(len(rest)) if not mask >> i & 1]
        for lt in _binary_over(left):
            for rt in _binary_over(right):
                yield ["", None, [lt, rt]]


def refinements(node):
    """all binary refinements of a tree without unary nodes, as [name, colour, children] trees
    (images of original nodes keep name and colour, new nodes are unnamed)."""
    name, colour, kids = node
    if not kids:
        return [[name, colour, []]]
    out = []
    for tup in itertools.product(*(refinements(k) for k in kids)):
        for b in _binary_over(list(tup)):
            out.append([name, colour, b[2]])
    return out


def clade_key(node, with_labels=False):
    """order-insensitive identity of a tree: its set of clades (optionally with the labels they carry)."""
    acc = set()

    def go(n):
        if not n[2]:
            cl = frozenset([n[0]])
        else:
            cl = frozenset().union(*(go(k) for k in n[2]))
        acc.add((cl, n[0], n[1]) if with_labels else cl)
        return cl

    go(node)
    return frozenset(acc)


def double_fact_count(node):
    c = 1
    for n in nodes_of(node):
        k = len(n[2])
        if k >= 2:
            for j in range(2 * k - 3, 0, -2):
                c *= j
    return c


def check_refinement_list(orig, results):
    """The property on one tree: `results` must be exactly the binary refinements of `orig`, each once,
    images of original nodes keeping name and colour.  Returns (ok, detail)."""
    want = {clade_key(r): r for r in refinements(orig)}
    if len(want) != double_fact_count(orig):
        return False, "oracle self-check failed: independent generator disagrees with the (2k-3)!! product"
    seen = set()
    for r in results:
        if not tree_is_binary(r):
            return False, f"result {newick(r)} is not binary"
        if sorted(leaves_of(r)) != sorted(leaves_of(orig)):
            return False, f"result {newick(r)} does not have the original leaves"
        k = clade_key(r)
        if k not in want:
            return False, f"result {newick(r)} is not a refinement of {newick(orig)} (a clade of the original is missing)"
        if k in seen:
            return False, f"refinement {newick(r)} is produced more than once"
        seen.add(k)
        by_clade = {}
        for n in nodes_of(r):
            by_clade[frozenset(leaves_of(n))] = n
        for n in nodes_of(orig):
            img = by_clade[frozenset(leaves_of(n))]
            if (img[0], img[1]) != (n[0], n[1]):
                return False, (f"node {n[0]!r}/{n[1]!r} of the original became {img[0]!r}/{img[1]!r} in {newick(r)}")
    if len(seen) != len(want):
        missing = next(want[k] for k in want if k not in seen)
        return False, f"{len(want) - len(seen)} refinements are never produced, e.g. {newick(missing)}"
    if len(results) != double_fact_count(orig):
        return False, "count differs from the product of (2k-3)!!"
    return True, "exactly the binary refinements, each once, labels kept"


# --------------------------------------------------------------------------


def _impl_trees():
    from superrec2.utils import trees as T
    return T


def batches(ctx):
    rng = ctx.rng
    quick = ctx.quick()

    # ---------------------------------------------------------------- (a) enumerator
    T = _impl_trees()
    maxn = 5 if quick else 6
    cases = []
    for n in range(1, maxn + 1):
        for sh in shapes(n):
            cases.append({"tree": label_shape(sh, LEAFNAMES, lambda i: f"N{i}")})
            if n >= 2:
                names = list(LEAFNAMES[:n])
                rng.shuffle(names)
                keep = [rng.random() < 0.5 for _ in range(12)]
                cases.append({"tree": label_shape(sh, names, lambda i: f"N{i}" if keep[i] else "")})
    for n in range(1, 5):
        for sh in shapes(n, unary=(2 if n <= 2 else 1)):
            t = label_shape(sh, LEAFNAMES, lambda i: f"N{i}")
            if has_unary(t):
                cases.append({"tree": t})
                keep = [rng.random() < 0.5 for _ in range(16)]
                cases.append({"tree": label_shape(sh, LEAFNAMES, lambda i: f"N{i}" if keep[i] else "")})

    def impl_a(c):
        t = build(c["tree"])
        try:
            r = list(T.binarize(t))
            res = [canon(x) for x in r]
        except RecursionError:
            return {"err": "RecursionError"}
        except Exception as e:  # noqa: BLE001
            return {"err": type(e).__name__}
        # every returned refinement must be a tree of its own: parent pointers consistent, no node object shared
        # with another refinement or with the input
        seen, bad = {id(n) for n in t.traverse()} if len(r) > 1 else set(), None
        for k, x in enumerate(r):
            for n in x.traverse():
                if any(c.up is not n for c in n.children):
                    bad = f"refinement #{k}: a child's parent pointer does not lead to its parent"
                if id(n) in seen and len(r) > 1:
                    bad = bad or f"refinement #{k} shares a node object with another refinement (or with the input tree)"
                seen.add(id(n))
            if x.up is not None:
                bad = bad or f"refinement #{k}: the root has a parent"
        return {"results": res, "is_list": True, "malformed": bad}

    def enc_out_a(c, r):
        codes = bundle_codes(c["tree"])
        if "err" in r or r.get("malformed") or not all(tree_is_binary(x) for x in r["results"]):
            return "None"
        return copt(clist(enc_bt(x, codes) for x in r["results"]))

    def oracle_a(c, r):
        if has_unary(c["tree"]):
            return True, "tree with a single-child node: outside the property's domain (no polytomy semantics)"
        if "err" in r:
            return False, f"binarize raised {r['err']}"
        if r.get("malformed"):
            return False, "binarize returned objects that are not independent well-formed trees: " + r["malformed"]
        return check_refinement_list(c["tree"], r["results"])

    ctx.dist["enumerator"] = {
        "cases": len(cases),
        "with_polytomy": sum(has_polytomy(c["tree"]) for c in cases),
        "with_unary": sum(has_unary(c["tree"]) for c in cases),
        "max_leaves": maxn,
    }
    yield Batch(
        name="enumerator", header=HEADER,
        run="fun t => Some (binarize t)",
        eqb="fun a b => match a, b with Some x, Some y => list_eqb bt_eqb x y | _, _ => false end",
        ty_in="rose", ty_out="option (list bt)",
        cases=cases, impl=impl_a,
        enc_in=lambda c: enc_rose(c["tree"], bundle_codes(c["tree"])),
        enc_out=enc_out_a, oracle=oracle_a,
        nontrivial=lambda c, r: has_polytomy(c["tree"]) and not has_unary(c["tree"]),
        exhaustive=True, shard=40,
        describe=f"binarize(tree) as an ordered list (child order and enumeration order kept) for every rose-tree shape "
                 f"with arities >= 2 up to {maxn} leaves (two labelings each) and every shape with unary nodes up to 4 leaves",
    )

    # ---------------------------------------------------------------- counts
    ccases = [c for c in cases if not has_unary(c["tree"])]

    def impl_count(c):
        try:
            return len(list(T.binarize(build(c["tree"]))))
        except Exception as e:  # noqa: BLE001
            return -1

    yield Batch(
        name="count", header=HEADER,
        run="fun t => (N.of_nat (refinement_count t), N.of_nat (length (binarize t)))",
        eqb="fun a b => N.eqb (fst a) (fst b) && N.eqb (snd a) (snd b)",
        ty_in="rose", ty_out="N * N",
        cases=ccases, impl=impl_count,
        enc_in=lambda c: enc_rose(c["tree"], bundle_codes(c["tree"])),
        enc_out=lambda c, r: cpair(cN(max(r, 0)), cN(max(r, 0))),
        oracle=lambda c, r: (r == double_fact_count(c["tree"]),
                             f"property demands {double_fact_count(c['tree'])} refinements, implementation produced {r}"),
        nontrivial=lambda c, r: has_polytomy(c["tree"]),
        exhaustive=True, shard=200,
        describe="len(binarize(tree)) against the product over nodes of (2k-3)!! (refinement_count) on the same trees",
    )

    # ---------------------------------------------------------------- literal variant
    yield Batch(
        name="enumerator_literal", header=HEADER,
        run="fun t => Some (binarize_lit same_leafset t)",
        eqb="fun a b => match a, b with Some x, Some y => list_eqb bt_eqb x y | _, _ => false end",
        ty_in="rose", ty_out="option (list bt)",
        cases=ccases, impl=impl_a,
        enc_in=lambda c: enc_rose(c["tree"], bundle_codes(c["tree"])),
        enc_out=enc_out_a, oracle=oracle_a,
        nontrivial=lambda c, r: has_polytomy(c["tree"]),
        exhaustive=True, shard=40,
        describe="same trees (arities >= 2) against the literal variant of the model: graft on plain trees that stops where "
                 "the node has the same leaf set as a member of the ignore list (stand-in for equal topology ids)",
    )

    # ---------------------------------------------------------------- larger random trees
    # shapes the exhaustive sweep cannot reach: 6-9 leaves, children in random order (internal subtrees of
    # different sizes after the first child, nested polytomies), refinement count bounded so that the
    # list-against-list comparison stays cheap
    def rand_shape(n):
        if n == 1:
            return []
        k = rng.choice([2, 2, 3, 3, 4]) if n >= 4 else rng.randint(2, n)
        k = min(k, n)
        cuts = sorted(rng.sample(range(1, n), k - 1))
        sizes = [b - a for a, b in zip([0] + cuts, cuts + [n])]
        rng.shuffle(sizes)
        return [rand_shape(m) for m in sizes]

    rcases = []
    want = 160 if quick else 1200
    tries = 0
    while len(rcases) < want and tries < 50 * want:
        tries += 1
        n = rng.randint(6, 9 if quick else 10)
        sh = rand_shape(n)
        names = list("abcdefghij"[:n])
        rng.shuffle(names)
        keep = [rng.random() < 0.6 for _ in range(16)]
        t = label_shape(sh, names, lambda i: f"N{i}" if keep[i] else "")
        if not has_polytomy(t) or double_fact_count(t) > (150 if quick else 1000):
            continue
        rcases.append({"tree": t})
    ctx.dist["enumerator_random"] = {
        "cases": len(rcases),
        "leaves": {str(k): sum(len(leaves_of(c["tree"])) == k for c in rcases) for k in range(6, 11)},
        "max_refinements": max((double_fact_count(c["tree"]) for c in rcases), default=0),
    }
    yield Batch(
        name="enumerator_random", header=HEADER,
        run="fun t => Some (binarize t)",
        eqb="fun a b => match a, b with Some x, Some y => list_eqb bt_eqb x y | _, _ => false end",
        ty_in="rose", ty_out="option (list bt)",
        cases=rcases, impl=impl_a,
        enc_in=lambda c: enc_rose(c["tree"], bundle_codes(c["tree"])),
        enc_out=enc_out_a, oracle=oracle_a,
        nontrivial=lambda c, r: True,
        shard=12,
        describe="binarize(tree) as an ordered list on random rose trees with 6-9 (thorough: 6-10) leaves, arities 2-4, "
                 "children of different sizes in random order, at most 150 (1000) refinements each",
    )

    # ---------------------------------------------------------------- (b) inputs
    yield from _input_batch(ctx)

    # ---------------------------------------------------------------- (c) end to end
    yield from _solver_batch(ctx)


# --------------------------------------------------------------------------
# (b) ReconciliationInput.binarize() + label_internal()

COLOURS = ["red", "blue", "green"]


def _random_labelled(rng, sh, leafnames, prefix):
    keep = [rng.random() for _ in range(12)]
    col = [rng.random() for _ in range(12)]
    return label_shape(
        sh, leafnames,
        lambda i: (f"{prefix}{i}" if keep[i] < 0.6 else ""),
        lambda i: (COLOURS[i % 3] if col[i] < 0.5 else None),
    )


def make_input(case):
    """case -> SuperReconciliationInput built with fresh ete3 trees."""
    from superrec2.model.reconciliation import SuperReconciliationInput, NodeEvent, EdgeEvent
    from superrec2.utils.trees import LowestCommonAncestor
    from infinity import inf
    O = build(case["object"])
    S = build(case["species"])
    m = {O & o: S & s for o, s in case["map"].items()}
    # a synteny may be given as any sequence of family names: a list, a tuple, or a string of one-letter names
    as_ = case.get("syn_as", "list")
    conv = {"list": list, "tuple": tuple, "str": lambda v: "".join(v) if all(len(f) == 1 for f in v) else tuple(v)}[as_]
    syn = {O & o: conv(v) for o, v in case["syn"].items()}
    cv = case.get("costs", [0, 1, 1, 1, 1])
    costs = {
        NodeEvent.SPECIATION: cv[0], NodeEvent.DUPLICATION: cv[1],
        NodeEvent.HORIZONTAL_TRANSFER: inf if cv[2] is None else cv[2],
        EdgeEvent.FULL_LOSS: cv[3], EdgeEvent.SEGMENTAL_LOSS: cv[4],
    }
    return SuperReconciliationInput(O, LowestCommonAncestor(S), m, costs, syn)


def canon_input(inp, case):
    """canonical form of a (binarized, internally labelled) input: both trees with fresh names erased,
    plus the leaf data looked up in the input's *own* mappings."""
    def renamer(orig):
        names = {n[0] for n in nodes_of(orig) if n[0]}

        def ren(tree):
            all_names = [n.name for n in tree.traverse()]

            def f(nm):
                if nm in names:
                    return nm
                if nm == "" or all_names.count(nm) != 1:
                    return "?unnamed-or-duplicate"
                return ""
            return f
        return ren

    ot, st = inp.object_tree, inp.species_lca.tree
    o = canon(ot, renamer(case["object"])(ot))
    s = canon(st, renamer(case["species"])(st))
    leafdata = {}
    for leaf in ot.iter_leaves():
        sp = inp.leaf_object_species.get(leaf)
        sy = inp.leaf_syntenies.get(leaf)
        leafdata[leaf.name] = [None if sp is None else sp.name, None if sy is None else "".join(sy)]
    stray = [k for k in list(inp.leaf_object_species) + list(inp.leaf_syntenies) if k.get_tree_root() is not ot]
    stray += [v for v in inp.leaf_object_species.values() if v.get_tree_root() is not st]
    return {"object": o, "species": s, "leafdata": leafdata, "stray": len(stray)}


def _orig_leafdata(case):
    return {o: [case["map"].get(o), case["syn"].get(o)] for o in leaves_of(case["object"])}


def _input_cases(rng, quick):
    cases = []
    maxn = 4 if quick else 5
    pool = [sh for n in range(2, maxn + 1) for sh in shapes(n)]
    per = 3 if quick else 8
    for osh in pool:
        for _ in range(per):
            ssh = rng.choice(pool)
            if rng.random() < 0.25:
                ssh = rng.choice([s for s in pool if all(len(x) in (0, 2) for x in _walk(s))])
            cases.append(_random_input_case(rng, osh, ssh))
    for ssh in pool:
        osh = rng.choice(pool)
        cases.append(_random_input_case(rng, osh, ssh))
    return cases


def _walk(sh):
    yield sh
    for k in sh:
        yield from _walk(k)


def _random_input_case(rng, osh, ssh, fams="abc", costs=None):
    no = sum(1 for x in _walk(osh) if not x)
    ns = sum(1 for x in _walk(ssh) if not x)
    obj = _random_labelled(rng, osh, [f"x{i}" for i in range(no)], "P")
    spe = _random_labelled(rng, ssh, [f"{'ABCDEFGH'[i]}" for i in range(ns)], "Q")
    # an original node may already bear a name that looks auto-generated
    internal = [n for n in nodes_of(obj) if n[2]]
    if internal and rng.random() < 0.3:
        rng.choice(internal)[0] = rng.choice(["O0", "O1"])
    internal = [n for n in nodes_of(spe) if n[2]]
    if internal and rng.random() < 0.3:
        rng.choice(internal)[0] = "S0"
    # leaves may bear names that look auto-generated too (a species called S0, a gene called O1)
    if rng.random() < 0.3:
        lv = [n for n in nodes_of(spe) if not n[2]]
        used = {n[0] for n in nodes_of(spe)}
        for n, nm in zip(rng.sample(lv, min(len(lv), 2)), ["S0", "S1"]):
            if nm not in used:
                n[0] = nm
    if rng.random() < 0.3:
        lv = [n for n in nodes_of(obj) if not n[2]]
        used = {n[0] for n in nodes_of(obj)}
        for n, nm in zip(rng.sample(lv, min(len(lv), 2)), ["O0", "O1"]):
            if nm not in used:
                n[0] = nm
    sleaves = leaves_of(spe)
    mp = {o: rng.choice(sleaves) for o in leaves_of(obj)}
    syn = {}
    for o in leaves_of(obj):
        k = rng.randint(1, len(fams))
        syn[o] = "".join(sorted(rng.sample(fams, k)))
    c = {"object": obj, "species": spe, "map": mp, "syn": syn}
    if rng.random() < 0.4:
        # leaf syntenies as tuples / strings, in one common order that is NOT the alphabetical one
        perm = list(fams)
        rng.shuffle(perm)
        c["syn"] = {o: "".join(f for f in perm if f in v) for o, v in syn.items()}
        c["syn_as"] = rng.choice(["tuple", "str", "list"])
    if costs is not None:
        c["costs"] = costs
    return c


def _input_batch(ctx):
    rng = ctx.rng
    cases = _input_cases(rng, ctx.quick())

    def impl(c):
        try:
            inp = make_input(c)
            out = []
            for b in inp.binarize():
                b.label_internal()
                out.append(canon_input(b, c))
            return {"results": out}
        except RecursionError:
            return {"err": "RecursionError"}
        except Exception as e:  # noqa: BLE001
            return {"err": type(e).__name__ + ": " + str(e)[:100]}

    def codes_of(c):
        extra = {k: v for k, v in _orig_leafdata(c).items()}
        return bundle_codes(c["object"], extra=extra), bundle_codes(c["species"]), extra

    def enc_in(c):
        co, cs, extra = codes_of(c)
        return cpair(enc_rose(c["object"], co, extra), enc_rose(c["species"], cs))

    def enc_out(c, r):
        co, cs, _ = codes_of(c)
        if "err" in r:
            return "None"
        items = []
        for x in r["results"]:
            if not tree_is_binary(x["object"]) or not tree_is_binary(x["species"]) or x["stray"]:
                return "None"
            items.append(cpair(enc_bt(x["object"], co, x["leafdata"]), enc_bt(x["species"], cs)))
        return copt(clist(items))

    def oracle(c, r):
        if "err" in r:
            return False, f"binarize()/label_internal() raised {r['err']}"
        objs, spes = [], []
        for x in r["results"]:
            if x["stray"]:
                return False, "a leaf mapping of a binarized input refers to a node outside its own trees"
            if x["leafdata"] != _orig_leafdata(c):
                return False, f"leaf data changed: {x['leafdata']} instead of {_orig_leafdata(c)}"
            for t in (x["object"], x["species"]):
                if any(n[0] == "?unnamed-or-duplicate" for n in nodes_of(t)):
                    return False, "label_internal left a node unnamed or produced a duplicate name"
            objs.append(x["object"])
            spes.append(x["species"])
        # the pairs must be the full product of the refinements of both trees, each once
        ok, d = check_refinement_list(c["object"], _dedup_consecutive(objs, len(_uniq(spes))))
        if not ok:
            return False, "object tree: " + d
        ok, d = check_refinement_list(c["species"], _uniq(spes))
        if not ok:
            return False, "species tree: " + d
        pairs = {(clade_key(a), clade_key(b)) for a, b in zip(objs, spes)}
        if len(pairs) != len(objs) or len(objs) != double_fact_count(c["object"]) * double_fact_count(c["species"]):
            return False, "the refinement pairs are not the full product, each once"
        return True, "all pairs of refinements, labels, colours and leaf data kept"

    ctx.dist["inputs"] = {
        "cases": len(cases),
        "object_polytomy": sum(has_polytomy(c["object"]) for c in cases),
        "species_polytomy": sum(has_polytomy(c["species"]) for c in cases),
        "both_binary": sum(not has_polytomy(c["object"]) and not has_polytomy(c["species"]) for c in cases),
        "coloured_nodes": sum(1 for c in cases for t in (c["object"], c["species"]) for n in nodes_of(t) if n[1]),
    }
    yield Batch(
        name="inputs", header=HEADER,
        run="fun '(o, s) => Some (input_binarize o s)",
        eqb="fun a b => match a, b with Some x, Some y => "
            "list_eqb (fun p q => bt_eqb (fst p) (fst q) && bt_eqb (snd p) (snd q)) x y | _, _ => false end",
        ty_in="rose * rose", ty_out="option (list (bt * bt))",
        cases=cases, impl=impl, enc_in=enc_in, enc_out=enc_out, oracle=oracle,
        nontrivial=lambda c, r: (has_polytomy(c["object"]) or has_polytomy(c["species"]))
        and any(n[2] and (n[0] or n[1]) for t in (c["object"], c["species"]) for n in nodes_of(t)),
        exhaustive=False, shard=60,
        describe="SuperReconciliationInput.binarize() then label_internal() on every yielded input: ordered list of "
                 "(object tree, species tree) with names (auto-generated ones erased, checked non-empty and unique), colours, "
                 "and per-leaf (species, synteny) read from the yielded input's own mappings",
    )


def _uniq(trees):
    seen, out = set(), []
    for t in trees:
        k = repr(t)
        if k not in seen:
            seen.add(k)
            out.append(t)
    return out


def _dedup_consecutive(trees, block):
    """product(objects, species) repeats every object refinement `block` times in a row."""
    if block <= 0:
        return trees
    return [t for i, t in enumerate(trees) if i % block == 0]


# --------------------------------------------------------------------------
# (c) end to end: extended solvers on polytomous inputs

INF_CODE = 10 ** 9
COST_VECTORS = [[0, 1, 1, 1, 1], [0, 1, 3, 1, 1], [1, 2, None, 1, 1], [0, 2, 1, 1, 2], [0, 1, 2, 2, 0]]


def _solvers():
    from superrec2.compute.super_reconciliation import sreconcile_extended_spfs
    from superrec2.compute.unordered_super_reconciliation import usreconcile_extended_uspfs
    return {"spfs": sreconcile_extended_spfs, "uspfs": usreconcile_extended_uspfs}


def _cost_code(x):
    from infinity import inf
    if x == inf:
        return INF_CODE
    assert x == int(x) and x >= 0
    return int(x)


def _nested_transfer_case(rng, costs):
    """a directed family: the object tree follows a caterpillar species tree except that the deepest leaf is replaced by a
    cherry holding a leaf of the farthest species (under the LCA mapping: a stack of duplications that ONE transfer removes);
    one inner edge of the object tree -- and, half of the time, of the species tree -- is collapsed into a polytomy whose
    children come in a random order.  The refinements then differ widely in their LCA cost while the optimum uses a transfer."""
    k = rng.choice([4, 4, 5])
    sp = [[], []]
    for _ in range(k - 2):
        sp = [sp, []]
    ob = [[("L", k - 1), ("L", 0)], ("L", 1)]
    for i in range(2, k):
        ob = [ob, ("L", i)]

    def collapse(t, protect, shuffle=True):
        inner = []

        def walk(n, parent):
            if isinstance(n, list) and n:
                if parent is not None and n is not protect:
                    inner.append((parent, n))
                for ch in n:
                    walk(ch, n)
        walk(t, None)
        if inner:
            parent, n = rng.choice(inner)
            i = next(j for j, ch in enumerate(parent) if ch is n)
            parent[i:i + 1] = n
            if shuffle:
                rng.shuffle(parent)
    collapse(ob, ob_nested := _first_cherry(ob))
    if rng.random() < 0.5:
        collapse(sp, None, shuffle=False)
    order = []

    def shape(n):
        if isinstance(n, tuple):
            order.append(n[1])
            return []
        return [shape(ch) for ch in n]
    osh = shape(ob)
    c = _random_input_case(rng, osh, sp, fams="a" if rng.random() < 0.7 else "ab", costs=costs)
    sleaves = leaves_of(c["species"])
    # species leaves are named left to right; in the caterpillar the deepest cherry comes first, and collapsing keeps that order
    c["map"] = {o: sleaves[i] for o, i in zip(leaves_of(c["object"]), order)}
    if rng.random() < 0.7:
        c["syn"] = {o: "a" for o in c["syn"]}
        c.pop("syn_as", None)
    return c


def _first_cherry(t):
    while isinstance(t[0], list) and t[0] and isinstance(t[0][0], list):
        t = t[0]
    return t[0] if isinstance(t[0], list) else t


def _solver_cases(rng, quick):
    pool = [sh for n in range(2, 5) for sh in shapes(n)]
    poly = [s for s in pool if any(len(x) > 2 for x in _walk(s))]
    cases, budget = [], (450 if quick else 15000)
    tries = 0
    while budget > 0 and tries < 2000:
        tries += 1
        r = rng.random()
        if r < 0.4:
            osh, ssh = rng.choice(poly), rng.choice(pool)
        elif r < 0.8:
            osh, ssh = rng.choice(pool), rng.choice(poly)
        else:
            osh, ssh = rng.choice(poly), rng.choice(poly)
        nfam = rng.randint(1, 3)
        c = _random_input_case(rng, osh, ssh, fams="abc"[:nfam], costs=rng.choice(COST_VECTORS))
        c["solver"] = rng.choice(["spfs", "uspfs"])
        pairs = double_fact_count(c["object"]) * double_fact_count(c["species"])
        if pairs > (45 if quick else 225) or pairs > budget:
            continue
        budget -= pairs
        cases.append(c)
    for _ in range(40 if quick else 600):
        c = _nested_transfer_case(rng, rng.choice([COST_VECTORS[0], COST_VECTORS[0], COST_VECTORS[1], COST_VECTORS[3]]))
        c["solver"] = rng.choice(["spfs", "uspfs"])
        if double_fact_count(c["object"]) * double_fact_count(c["species"]) <= 45:
            cases.append(c)
    return cases


_E2E: dict = {}      # impl / oracle of the end-to-end batch, for the failing-input search


def _search_one(seed):
    import random
    rng = random.Random(seed)
    pool = [sh for n in range(2, 5) for sh in shapes(n)]
    poly = [s_ for s_ in pool if any(len(x) > 2 for x in _walk(s_))]
    for _ in range(50):
        if rng.random() < 0.3:
            c = _nested_transfer_case(rng, COST_VECTORS[0])
            c["solver"] = rng.choice(["spfs", "uspfs"])
            if double_fact_count(c["object"]) * double_fact_count(c["species"]) <= 45:
                break
            continue
        r = rng.random()
        osh, ssh = (rng.choice(poly), rng.choice(pool)) if r < 0.4 else ((rng.choice(pool), rng.choice(poly)) if r < 0.8 else (rng.choice(poly), rng.choice(poly)))
        c = _random_input_case(rng, osh, ssh, fams="abc"[:rng.randint(1, 3)], costs=rng.choice([COST_VECTORS[0], COST_VECTORS[0], rng.choice(COST_VECTORS)]))
        c["solver"] = rng.choice(["spfs", "uspfs"])
        if double_fact_count(c["object"]) * double_fact_count(c["species"]) <= 45:
            break
    res = _E2E["impl"](c)
    ok, why = _E2E["oracle"](c, res)
    return c, res, ok, why


def search(ctx):
    """the tie is broken but the generated cases show no wrong optimum: fresh polytomous inputs (default costs twice as
    often), each judged by the minimum of the same solver over the independent refinement pairs; parallel, time budget"""
    import multiprocessing as mp
    import time
    from .. import core
    from ..core import Finding
    if not _E2E:
        return None
    t0 = time.time()
    budget = 150 if ctx.quick() else 900
    n = 0
    with mp.get_context("fork").Pool(core.NPROC) as pool:
        while time.time() - t0 < budget:
            seeds = [ctx.rng.randrange(1 << 62) for _ in range(320)]
            for c, res, ok, why in pool.imap_unordered(_search_one, seeds, chunksize=4):
                n += 1
                ctx.evaluations += 1
                if ok is False:
                    ctx.notes.append(f"failing-input search: violation found after {n} fresh polytomous inputs")
                    return Finding("extended_solvers", c, res, "(minimum over the independent refinement pairs)", False, why)
    ctx.notes.append(f"failing-input search: {n} fresh polytomous inputs, none violates the property")
    return None


def _solver_batch(ctx):
    rng = ctx.rng
    cases = _solver_cases(rng, ctx.quick())
    expected_memo = {}

    def run_solver(c, inp):
        from superrec2.utils.dynamic_programming import RetentionPolicy
        return _solvers()[c["solver"]](inp, RetentionPolicy.ALL)

    def impl(c):
        """the extended solver on the polytomous input: minimum cost, number of optimal solutions and,
        for every returned solution, whether the trees it refers to are binary refinements of the
        originals (names, colours, leaf data kept) according to the independent generator."""
        try:
            res = run_solver(c, make_input(c))
        except RecursionError:
            return {"err": "RecursionError"}
        except Exception as e:  # noqa: BLE001
            return {"err": type(e).__name__ + ": " + str(e)[:100]}
        okeys = {clade_key(t, True) for t in refinements(c["object"])}
        skeys = {clade_key(t, True) for t in refinements(c["species"])}
        bad = []
        costs = []
        for out in res:
            costs.append(_cost_code(out.cost()))
            x = canon_input(out.input, c)
            if clade_key(x["object"], True) not in okeys or not tree_is_binary(x["object"]):
                bad.append("object tree " + newick(x["object"]) + " is not a binary refinement with the original labels")
            elif clade_key(x["species"], True) not in skeys or not tree_is_binary(x["species"]):
                bad.append("species tree " + newick(x["species"]) + " is not a binary refinement with the original labels")
            elif x["leafdata"] != _orig_leafdata(c) or x["stray"]:
                bad.append("leaf data changed")
        return {"min": min(costs) if costs else None, "all_costs_equal": len(set(costs)) <= 1,
                "n": len(costs), "bad": bad[:3]}

    def expected(c):
        """minimum, over the independent refinement pairs, of the same solver's optimum on the binary input."""
        k = repr(c)
        if k in expected_memo:
            return expected_memo[k]
        per_pair = []
        for o in refinements(c["object"]):
            for s in refinements(c["species"]):
                cb = dict(c, object=o, species=s)
                res = run_solver(cb, make_input(cb))
                costs = [_cost_code(x.cost()) for x in res]
                per_pair.append(min(costs) if costs else None)
        expected_memo[k] = per_pair
        return per_pair

    def enc_in(c):
        return clist(copt(None if x is None else cN(x)) for x in expected(c))

    def enc_out(c, r):
        if "err" in r:
            return "(None, false)"
        return cpair(copt(None if r["min"] is None else cN(r["min"])), cbool(not r["bad"] and r["all_costs_equal"]))

    def oracle(c, r):
        if "err" in r:
            return False, f"extended solver raised {r['err']} on a polytomous input"
        if r["bad"]:
            return False, "a returned solution refers to trees that are not refinements of the input: " + r["bad"][0]
        if not r["all_costs_equal"]:
            return False, "solutions returned under policy ALL do not all have the minimum cost"
        vals = [x for x in expected(c) if x is not None]
        want = min(vals) if vals else None
        return r["min"] == want, (f"minimum over the {len(expected(c))} binary refinement pairs is {want}, "
                                  f"the solver on the polytomous input returned cost {r['min']}")

    _E2E.update(impl=impl, oracle=oracle)
    ctx.dist["extended_solvers"] = {
        "cases": len(cases),
        "refinement_pairs": sum(double_fact_count(c["object"]) * double_fact_count(c["species"]) for c in cases),
        "both_polytomous": sum(has_polytomy(c["object"]) and has_polytomy(c["species"]) for c in cases),
        "by_solver": {s: sum(c["solver"] == s for c in cases) for s in ("spfs", "uspfs")},
    }
    yield Batch(
        name="extended_solvers",
        header=HEADER +
        "Definition omin (a b : option N) : option N := match a, b with None, x => x | x, None => x "
        "| Some x, Some y => Some (N.min x y) end.\n"
        "Definition oeqb (a b : option N) : bool := match a, b with None, None => true "
        "| Some x, Some y => N.eqb x y | _, _ => false end.\n",
        run="fun l : list (option N) => (fold_right omin None l, true)",
        eqb="fun a b => oeqb (fst a) (fst b) && Bool.eqb (snd a) (snd b)",
        ty_in="list (option N)", ty_out="option N * bool",
        cases=cases, impl=impl, enc_in=enc_in, enc_out=enc_out, oracle=oracle,
        nontrivial=lambda c, r: "err" not in r and (r["min"] or 0) > 0
        and double_fact_count(c["object"]) * double_fact_count(c["species"]) > 1,
        exhaustive=False, shard=500,
        describe="sreconcile_extended_spfs / usreconcile_extended_uspfs (policy ALL) on polytomous inputs (<= 4+4 leaves, "
                 "<= 3 families): optimum compared with the minimum of the same solver over the independent refinement pairs; "
                 "every returned solution's trees checked to be binary refinements with original labels and leaf data "
                 "(no Gallina solver model on this batch: Coq only folds the minimum)",
    )

    # ---------------------------------------------------------------- (d) the loop model of Model/Poly.v
    # spfs_poly / uspfs_poly (the models the theorems ext_optimum_refinements* are about) against the code:
    # value, and for every refinement pair (by its index in binarize() order) the number of optimal solutions
    def names_ok(c):
        for t in (c["object"], c["species"]):
            nm = [n[0] for n in nodes_of(t) if n[0]]
            if len(nm) != len(set(nm)):
                return False
        return True

    pcases = [c for c in cases if names_ok(c)]

    def name_codes(t):
        return {n[0]: i for i, n in enumerate(x for x in nodes_of(t) if x[0])}

    def enc_named(n, codes, ctor):
        lab = copt(cnat(codes[n[0]])) if n[0] else "None"
        if not n[2]:
            return f"(RLeaf {lab})"
        return f"(RNode {lab} {clist(enc_named(k, codes, ctor) for k in n[2])})"

    def ordered_key(node):
        if node.is_leaf():
            return node.name
        return "(" + ",".join(ordered_key(k) for k in node.children) + ")"

    def impl_poly(c):
        from superrec2.utils.dynamic_programming import RetentionPolicy
        r = impl(c)
        if "err" in r:
            return r
        try:
            index = {}
            for i, b in enumerate(make_input(c).binarize()):
                index[(ordered_key(b.object_tree), ordered_key(b.species_lca.tree))] = i
            res = run_solver(c, make_input(c))
            r["idx"] = sorted(index[(ordered_key(o.input.object_tree), ordered_key(o.input.species_lca.tree))] for o in res)
            anyres = _solvers()[c["solver"]](make_input(c), RetentionPolicy.ANY)
            r["any"] = sorted(_cost_code(o.cost()) for o in anyres)
        except Exception as e:  # noqa: BLE001
            return {"err": type(e).__name__ + ": " + str(e)[:100]}
        return r

    def costs_dict(c):
        cv = c.get("costs", [0, 1, 1, 1, 1])
        return {"spe": cv[0], "dup": cv[1], "hgt": "inf" if cv[2] is None else cv[2], "floss": cv[3], "sloss": cv[4]}

    def enc_in_poly(c):
        from .. import recon as R
        oc, sc = name_codes(c["object"]), name_codes(c["species"])
        ld = clist(cpair(cnat(oc[o]), cpair(cnat(sc[c["map"][o]]), clist(cN("abc".index(f) + 1) for f in c["syn"][o])))
                   for o in leaves_of(c["object"]))
        return cpair(cbool(c["solver"] == "spfs"), R.enc_costs(costs_dict(c)), ld,
                     enc_named(c["object"], oc, None), enc_named(c["species"], sc, None))

    def ext_code(x):
        return "PInf" if x >= INF_CODE else f"(Fin {cZ(x)})"

    def enc_out_poly(c, r):
        if "err" in r:
            return "None"
        v = "PInf" if r["min"] is None else ext_code(r["min"])
        va = "PInf" if not r["any"] else ext_code(r["any"][0])
        return copt(cpair(v, clist(map(cnat, r["idx"])), va, cnat(len(r["any"]))))

    ctx.dist["poly_model"] = {"cases": len(pcases), "by_solver": {s: sum(c["solver"] == s for c in pcases) for s in ("spfs", "uspfs")}}
    yield Batch(
        name="poly_model",
        header="From SR Require Import Base.Ext Model.Entry Model.Recon Model.Binarize Model.Poly.\n"
        "Definition idx_count (l : list nat) (i : nat) := length (filter (Nat.eqb i) l).\n"
        "Definition idx_eqb (a b : list nat) := Nat.eqb (length a) (length b) && "
        "forallb (fun i => Nat.eqb (idx_count a i) (idx_count b i)) (seq 0 300).\n"
        "Definition ext_eqb' (a b : ext) := match a, b with PInf, PInf => true | NInf, NInf => true | Fin x, Fin y => Z.eqb x y | _, _ => false end.\n"
        "Definition poly_obs (ordered : bool) c ld o s :=\n"
        "  let run := if ordered then spfs_poly else uspfs_poly in\n"
        "  match run c RALL ld o s, run c RANY ld o s with\n"
        "  | Some e, Some a => Some (val e, map fst (tags e), val a, length (tags a))\n"
        "  | _, _ => None end.\n",
        run="fun '(ordered, c, ld, o, s) => poly_obs ordered c ld o s",
        eqb="fun a b => match a, b with None, None => true | Some (v1, l1, w1, n1), Some (v2, l2, w2, n2) => "
            "ext_eqb' v1 v2 && idx_eqb l1 l2 && ext_eqb' w1 w2 && Nat.eqb n1 n2 | _, _ => false end",
        ty_in="bool * costs * leafdata * rose * rose", ty_out="option (ext * list nat * ext * nat)",
        cases=pcases, impl=impl_poly, enc_in=enc_in_poly, enc_out=enc_out_poly, oracle=oracle,
        nontrivial=lambda c, r: "err" not in r and double_fact_count(c["object"]) * double_fact_count(c["species"]) > 1,
        exhaustive=False, shard=8,
        describe="Model/Poly.v (spfs_poly / uspfs_poly: one MIN entry fed the candidates of every refinement pair in binarize() order) "
                 "against sreconcile_extended_spfs / usreconcile_extended_uspfs on the same polytomous inputs: minimum under ALL and ANY, "
                 "number of solutions under ANY, and under ALL the multiset of refinement-pair indexes the returned solutions refer to",
    )


TECHNIQUE = ("Coq proof that one MIN entry fed the candidates of every refinement pair holds the optimum over the pairs (C16 batch theorem + C02/C03 exactness); "
             "Coq proof (induction on atom trees / nested induction on rose trees) that the enumerator model is a duplicate-free, "
             "complete enumeration of the binary refinements with the (2k-3)!! count; model tied to the code by exhaustive "
             "small-shape correspondence evaluated with vm_compute, list against list in enumeration order")
LEVEL_TEXT = ("Machine-checked theorems on the model of graft/arrange_leaves/binarize for trees of any size and arity: "
              "count = product of (2k-3)!!; every result binary with the original leaves, every clade and its label (name, colour) "
              "kept; no two results equal up to child order (distinct leaf names); every binary tree meeting the clade "
              "characterisation (same leaves, clades and labels kept, other nodes unlabelled) produced up to child order; arrange_leaves enumerates all binary trees over its atoms exactly once; the literal `ignore`-set "
              "variant equals the atom variant; a binary input is returned unchanged. "
              "End to end (Model/Poly.v = the outer loop of _spfs/_uspfs feeding ONE entry with the candidates of every refinement pair): inside the coherent region "
              "the extended ordered and unordered solvers on inputs of any arity return, under ALL, exactly the solutions of minimum cost over all enumerated refinement pairs and all their solutions "
              "(duplicate-free, each referring to its pair), under ANY one of them, the value is the minimum of the binary optimum over the pairs; every returned solution refers to binary refinements "
              "of both trees with the original leaf data; the pairs are all pairs of refinements, each once, up to child order, and the binary optimum does not depend on the child order (species names distinct), so the returned value is the minimum over EVERY pair of binary refinements. "
              "The models are compared with utils/trees.binarize list against list on every rose-tree shape up to 5 (quick) / 6 (thorough) leaves and random 6-9 leaf trees, with "
              "ReconciliationInput.binarize()+label_internal() on labelled, coloured inputs with leaf data, and spfs_poly/uspfs_poly with the extended solvers on polytomous inputs "
              "(value, refinement-pair index of every returned solution, ANY).")
LEVEL_NOTE = ("Trusted: Coq kernel; the hand-written model (differential-tested, not proved); that equal ete3 topology ids imply "
              "equal leaf-name sets (no md5 collision) and that leaf names are distinct. "
              "The end-to-end clause is a theorem about Model/Poly.v (C08_ext_optimum_*, C08_returned_solutions_optimal_over_all_refinements_*; species-tree names pairwise distinct, "
              "coherent costs); the loop model is tied to the code by the batch `poly_model`, the batch `extended_solvers` re-derives the optimum from the independent refinement pairs. "
              "Trees with single-child nodes are outside the theorems' hypotheses (binarize collapses such a node onto its child "
              "and overwrites the child's name, a leaf included); the model mirrors that behaviour and is compared on such trees too.")
