"""C20 — triples, supertrees, disjoint sets."""
from __future__ import annotations

import copy
import json
import itertools

from ..core import Batch, cN, cZ, cbool, clist, cnat, copt, cpair

ID = "C20"
LEVEL = "proof"
PROP_FILE = "Properties/C20.v"
PROOF_FILES = ["Gen/DsuGen.v", "Proofs/DsuGenProofs.v", "Proofs/DsuBinaryGenProofs.v", "Gen/BuildGen.v", "Proofs/BuildGenProofs.v", "Proofs/BuildGenTotalProofs.v", "Proofs/AllTreesGenProofs.v", "Proofs/AllTreesGenTotalProofs.v", "Proofs/DisjointSetProofs.v", "Proofs/TriplesProofs.v", "Model/DisjointSet.v", "Model/Triples.v"]
TRUSTED = [
    "translator translator/pyfun.py + the type table in translator/dsu_gen.py: utils/disjoint_set.py (DisjointSet: __init__, find, unite, __len__, to_list, binary with its local _binary) is translated statement by statement into Gen/DsuGen.v on every run and proved equal to the hand-written model (the order of list(set(...)) in binary() is a parameter the theorems quantify over; deepcopy of a DisjointSet is the value itself)",
    "translator translator/pyfun.py (ninth extension) + translator/build_gen.py: tree_from_triples and all_trees_from_triples of utils/trees.py are translated into Gen/BuildGen.v on every run and proved equal to Model/Triples.v for all leaf and triple lists, errors included (built ete3 trees = name + list of children: Tree(), Tree(name=..), add_child, copy(); up pointers, distances, supports and features are not represented; `if not subtree` reads as `subtree is None`)",
    "model Model/DisjointSet.v of utils/disjoint_set.py (parent/rank lists, find on fuel S(max rank), union by rank, to_list, _binary recursion)",
    "model Model/Triples.v of tree_from_triples / all_trees_from_triples / tree_to_triples in utils/trees.py "
    "(recursion on fuel = number of leaves; set.pop() order of BreakUp as an explicit oracle)",
    "harness conversion ete3 tree <-> nested lists / clade bit masks",
]
ASSUMES = [
    "elements passed to DisjointSet are non-negative ints (negative Python indexes wrap around; not modelled)",
    "leaf names are distinct one-character strings, so that the string order used by tree_to_triples is the numeric order of the model",
    "list(set(ints)) inside DisjointSet.binary() yields the distinct ints in some order (theorems hold for every order; the "
    "correspondence compares binary() as a multiset of partitions)",
    "ete3 TreeNode: truthy when it has a leaf, add_child appends, remove_child/detach only unlink",
]
RULE = ("dsu: histories of unite/same-set/to_list/binary calls on DisjointSet(n) (all unite histories up to the tier's length on 5 elements, "
        "random mixed histories up to 12 elements incl. out-of-range arguments); non-trivial = at least one real merge and at least 3 blocks left when binary() is called. "
        "triples: (leaf list, triple list) pairs (all subsets of the 12 triples on 4 leaves, random subsets on 5-6 leaves, also unordered/duplicated/foreign triples); "
        "non-trivial = at least two triples and at least one displaying tree or an inconsistency found below the root. "
        "roundtrip: every ordered binary leaf-labelled tree on <= 5 leaves (+ random on 6-7); non-trivial = at least 4 leaves. "
        "supertree: restrictions of one random binary tree to random leaf subsets (compatible) and unrelated random trees (mostly incompatible); non-trivial = at least 2 input trees with >= 3 leaves")

HDR_DSU = r"""
From SR Require Import Model.DisjointSet.
Local Open Scope nat_scope.
Inductive op := U (a b : nat) | Q (a b : nat) | L | B.
Inductive obs := OB (b : bool) | OL (l : list (list nat)) (n : Z) | OBin (bs : list (list (list nat) * Z)).
Fixpoint ins (x : nat) (l : list nat) := match l with [] => [x] | y :: r => if x <=? y then x :: l else y :: ins x r end.
Definition isort (l : list nat) := fold_right ins [] l.
Definition hd0 (g : list nat) := match g with [] => 0 | x :: _ => x end.
Fixpoint insg (g : list nat) (l : list (list nat)) :=
  match l with [] => [g] | h :: r => if hd0 g <=? hd0 h then g :: l else h :: insg g r end.
Definition canon (l : list (list nat)) := fold_right insg [] (map isort l).
Fixpoint obs_bins (bs : list dsu) : res (list (list (list nat) * Z)) :=
  match bs with
  | [] => Ok []
  | b :: r => ' (b1, l) <- to_list b ;; rest <- obs_bins r ;; Ok ((canon l, len b1) :: rest)
  end.
Fixpoint run_ops (ops : list op) (d : dsu) : res (list obs) :=
  match ops with
  | [] => Ok []
  | U a b :: r => ' (d1, bo) <- unite d a b ;; rest <- run_ops r d1 ;; Ok (OB bo :: rest)
  | Q a b :: r => ' (d1, ra) <- find d a ;; ' (d2, rb) <- find d1 b ;; rest <- run_ops r d2 ;; Ok (OB (ra =? rb) :: rest)
  | L :: r => ' (d1, l) <- to_list d ;; rest <- run_ops r d1 ;; Ok (OL (canon l) (len d1) :: rest)
  | B :: r => ' (d1, bs) <- binary sorted_distinct d ;; o <- obs_bins bs ;; rest <- run_ops r d1 ;; Ok (OBin o :: rest)
  end.
Definition part_eqb (a b : list (list nat)) : bool := if list_eq_dec (list_eq_dec Nat.eq_dec) a b then true else false.
Definition bin_eqb (a b : list (list nat) * Z) : bool := part_eqb (fst a) (fst b) && Z.eqb (snd a) (snd b).
Definition count_bin (x : list (list nat) * Z) (l : list (list (list nat) * Z)) := length (filter (bin_eqb x) l).
Definition obs_eqb (a b : obs) : bool :=
  match a, b with
  | OB x, OB y => Bool.eqb x y
  | OL l n, OL l' n' => part_eqb l l' && Z.eqb n n'
  | OBin x, OBin y => (length x =? length y) && forallb (fun e => count_bin e x =? count_bin e y) x
  | _, _ => false
  end.
Fixpoint all2 {A} (f : A -> A -> bool) (a b : list A) : bool :=
  match a, b with [], [] => true | x :: r, y :: s => f x y && all2 f r s | _, _ => false end.
Definition err_eqb (a b : err) : bool :=
  match a, b with IndexError, IndexError | KeyError, KeyError | ValueError, ValueError | OutOfFuel, OutOfFuel => true | _, _ => false end.
(* expected = None: the implementation raised an exception the model has no value for *)
Definition out_eqb (a : res (list obs)) (b : option (res (list obs))) : bool :=
  match a, b with
  | Ok x, Some (Ok y) => all2 obs_eqb x y
  | Err e, Some (Err e') => err_eqb e e'
  | _, _ => false
  end.
"""

HDR_TR = r"""
From SR Require Import Model.DisjointSet Model.Triples.
Local Open Scope nat_scope.
Fixpoint insN (x : N) (l : list N) := match l with [] => [x] | y :: r => if N.leb x y then x :: l else y :: insN x r end.
Definition sortN (l : list N) := fold_right insN [] l.
Fixpoint lexle (a b : list N) : bool :=
  match a, b with [] , _ => true | _ :: _, [] => false
  | x :: r, y :: s => if N.ltb x y then true else if N.ltb y x then false else lexle r s end.
Fixpoint insL (x : list N) (l : list (list N)) := match l with [] => [x] | y :: r => if lexle x y then x :: l else y :: insL x r end.
Definition sortL (l : list (list N)) := fold_right insL [] l.
Definition mask_of (l : list nat) : N := fold_right (fun a m => N.lor (N.shiftl 1 (N.of_nat a)) m) 0%N l.
(* leaf sets (bit masks) of all nodes *)
Fixpoint clade_masks (t : tree) : list N :=
  match t with
  | Leaf a => [mask_of [a]]
  | Node cs => mask_of (leaves_of t) :: flat_map clade_masks cs
  end.
Definition canon_tree (t : tree) : list N := sortN (clade_masks t).
Definition canon_trees (ts : list tree) : list (list N) := sortL (map canon_tree ts).
Definition lN_eqb (a b : list N) : bool := if list_eq_dec N.eq_dec a b then true else false.
Definition llN_eqb (a b : list (list N)) : bool := if list_eq_dec (list_eq_dec N.eq_dec) a b then true else false.
Definition err_eqb (a b : err) : bool :=
  match a, b with IndexError, IndexError | KeyError, KeyError | ValueError, ValueError | OutOfFuel, OutOfFuel => true | _, _ => false end.
Definition res_eqb {A} (f : A -> A -> bool) (a : res A) (b : option (res A)) : bool :=
  match a, b with Ok x, Some (Ok y) => f x y | Err e, Some (Err e') => err_eqb e e' | _, _ => false end.
Definition opt_eqb {A} (f : A -> A -> bool) (a b : option A) : bool :=
  match a, b with None, None => true | Some x, Some y => f x y | _, _ => false end.
Definition map_res {A B} (f : A -> B) (r : res A) : res B := match r with Ok a => Ok (f a) | Err e => Err e end.
Definition tr_eqb (a b : triple) : bool :=
  let '(x, y, z) := a in let '(x', y', z') := b in (x =? x') && (y =? y') && (z =? z').
Fixpoint all2 {A} (f : A -> A -> bool) (a b : list A) : bool :=
  match a, b with [], [] => true | x :: r, y :: s => f x y && all2 f r s | _, _ => false end.
(* does t display ((a,b),c): some node has a and b but not c below it, and c is a leaf of t *)
Definition displaysb (t : tree) (tr : triple) : bool :=
  let '(a, b, c) := tr in
  let has (m : N) (x : nat) := N.testbit m (N.of_nat x) in
  has (mask_of (leaves_of t)) c && existsb (fun m => has m a && has m b && negb (has m c)) (clade_masks t).
Definition triples_of (t : tree) : list triple :=
  let ls := leaves_of t in
  filter (displaysb t) (flat_map (fun a => flat_map (fun b => if a <? b then map (fun c => (a, b, c)) ls else []) ls) ls).
"""


def _impl():
    from superrec2.utils import trees as T
    from superrec2.utils.disjoint_set import DisjointSet
    return T, DisjointSet


# --- tree helpers (nested lists: leaf = int, node = list of children) --------

def nwk(t) -> str:
    return str(t) if isinstance(t, int) else "(" + ",".join(nwk(c) for c in t) + ")"


def to_ete(t):
    import ete3
    if isinstance(t, int):
        return ete3.Tree(name=str(t))
    return ete3.Tree(nwk(t) + ";")


def from_ete(node):
    if node.is_leaf():
        try:
            return int(node.name)
        except ValueError:
            return 63             # a leaf that is not one of the given labels (e.g. an unnamed node)
    return [from_ete(c) for c in node.children]


def leaves(t):
    return [t] if isinstance(t, int) else [x for c in t for x in leaves(c)]


def clades(t):
    """sorted bit masks of the leaf sets of all nodes"""
    out = []

    def go(u):
        if isinstance(u, int):
            m = 1 << u
        else:
            m = 0
            for c in u:
                m |= go(c)
        out.append(m)
        return m
    go(t)
    return sorted(out)


def ctree(t) -> str:
    return f"(Leaf {t})" if isinstance(t, int) else "(Node " + clist(ctree(c) for c in t) + ")"


def displays(cl, leafmask, tr) -> bool:
    """property text: lca(a,b) is a strict descendant of lca(a,c) = some node has a, b but not c below it"""
    a, b, c = tr
    if not (leafmask >> c & 1):
        return False
    return any((m >> a & 1) and (m >> b & 1) and not (m >> c & 1) for m in cl)


def all_binary(ls):
    """all rooted binary trees on the leaf list, as nested lists, each unordered tree once"""
    ls = list(ls)
    if len(ls) == 1:
        return [ls[0]]
    out = []
    first, rest = ls[0], ls[1:]
    for k in range(len(rest) + 1):
        for comb in itertools.combinations(rest, k):
            a = [first] + list(comb)
            b = [x for x in rest if x not in comb]
            if not b:
                continue
            for ta in all_binary(a):
                for tb in all_binary(b):
                    out.append([ta, tb])
    return out


def all_ordered_binary(ls):
    """all plane binary trees whose leaves read left to right are ls"""
    if len(ls) == 1:
        return [ls[0]]
    out = []
    for k in range(1, len(ls)):
        for ta in all_ordered_binary(ls[:k]):
            for tb in all_ordered_binary(ls[k:]):
                out.append([ta, tb])
    return out


def restrict(t, keep):
    if isinstance(t, int):
        return t if t in keep else None
    cs = [r for r in (restrict(c, keep) for c in t) if r is not None]
    if not cs:
        return None
    return cs[0] if len(cs) == 1 else cs


def rand_binary(rng, ls):
    ls = list(ls)
    rng.shuffle(ls)
    forest = ls
    while len(forest) > 1:
        i = rng.randrange(len(forest))
        a = forest.pop(i)
        j = rng.randrange(len(forest))
        b = forest.pop(j)
        forest.append([a, b])
    return forest[0]


def exc_name(e) -> str:
    return type(e).__name__


ERRS = {"IndexError": "IndexError", "KeyError": "KeyError", "ValueError": "ValueError"}


def cres(r, enc) -> str:
    """r = {'ok': v} | {'err': name}; unknown exception -> None (never equal to a model value)"""
    if "err" in r:
        return copt(f"(Err {ERRS[r['err']]})") if r["err"] in ERRS else "None"
    return copt(f"(Ok {enc(r['ok'])})")


# ---------------------------------------------------------------------------


def pre_build(ctx):
    from translator import dsu_gen
    from .. import core
    changed = dsu_gen.regenerate(core.REPO)
    from translator import build_gen
    changed = build_gen.regenerate(core.REPO) or changed
    ctx.notes.append("Gen file of utils/disjoint_set.py " + ("regenerated (content changed)" if changed else "regenerated: unchanged"))


def batches(ctx):
    T, DisjointSet = _impl()
    rng = ctx.rng
    quick = ctx.quick()

    # ===================================================== (a) disjoint sets
    n0 = 5
    hist_len = 3 if quick else 4
    pairs = [(a, b) for a in range(n0) for b in range(n0)]
    dcases = []
    for k in range(hist_len + 1):
        for h in itertools.product(pairs, repeat=k):
            dcases.append({"n": n0, "ops": [["U", a, b] for a, b in h] + [["L"], ["B"], ["L"]]})
    n_exh = len(dcases)
    n_rand = 1200 if quick else 20000
    for _ in range(n_rand):
        n = rng.choice([0, 1, 2, 3, 4, 6, 7, 8, 9, 10, 12])
        ops = []
        for _ in range(rng.randint(0, 14)):
            x = rng.random()
            hi = n - 1 if rng.random() < 0.97 else n + 1     # a few out-of-range arguments
            if n == 0 or hi < 0:
                hi = 0
            if x < 0.6:
                ops.append(["U", rng.randint(0, hi), rng.randint(0, hi)])
            elif x < 0.75:
                ops.append(["Q", rng.randint(0, hi), rng.randint(0, hi)])
            elif x < 0.9:
                ops.append(["L"])
            elif n <= 7:
                ops.append(["B"])
        ops.append(["L"])
        if n <= 7 or (n <= 10 and len(ops) >= 8):
            ops.append(["B"])
        dcases.append({"n": n, "ops": ops})

    def canon_part(l):
        return sorted(sorted(g) for g in l)

    def impl_dsu(c):
        ds = DisjointSet(c["n"])
        out = []
        try:
            for op in c["ops"]:
                if op[0] == "U":
                    out.append(["b", bool(ds.unite(op[1], op[2]))])
                elif op[0] == "Q":
                    out.append(["b", ds.find(op[1]) == ds.find(op[2])])
                elif op[0] == "L":
                    out.append(["l", canon_part(ds.to_list()), len(ds)])
                else:
                    before = canon_part(ds.to_list())
                    res = ds.binary()
                    item = ["B", sorted([canon_part(b.to_list()), len(b)] for b in res)]
                    # the coarsenings are structures of their own: merging the two blocks of each one must leave
                    # the structure they were derived from (and one another) untouched
                    for b in res:
                        groups = b.to_list()
                        if len(groups) == 2:
                            b.unite(groups[0][0], groups[1][0])
                    if canon_part(ds.to_list()) != before or any(b is ds for b in res):
                        item = ["B", [[[[0]], -7]]]       # sentinel no partition can produce: the results were aliased
                    out.append(item)
        except Exception as e:  # noqa: BLE001 - mapped to the model's error values
            return {"err": exc_name(e)}
        return {"ok": out}

    def enc_op(op):
        if op[0] in ("U", "Q"):
            return f"{op[0]} {op[1]} {op[2]}"
        return op[0]

    def enc_part(p):
        return clist(clist(str(x) for x in g) for g in p)

    def enc_obs(o):
        if o[0] == "b":
            return f"OB {cbool(o[1])}"
        if o[0] == "l":
            return f"OL {enc_part(o[1])} {cZ(o[2])}"
        return "OBin " + clist(cpair(enc_part(p), cZ(k)) for p, k in o[1])

    def oracle_dsu(c, r):
        """property text: partition generated by the unions; unite true iff two blocks merged;
        binary = each two-block coarsening once.  Naive closure, no union-find."""
        n = c["n"]
        if any(x >= n for op in c["ops"] for x in op[1:]):
            return True, "element outside range(n): outside the property's domain"
        if "err" in r:
            return False, f"implementation raised {r['err']} on an in-range history"
        blocks = [{i} for i in range(n)]

        def blk(x):
            return next(b for b in blocks if x in b)
        for k, (op, o) in enumerate(zip(c["ops"], r["ok"])):
            if op[0] == "U":
                ba, bb = blk(op[1]), blk(op[2])
                want = ba is not bb
                if want:
                    blocks = [b for b in blocks if b is not ba and b is not bb] + [ba | bb]
                if o[1] != want:
                    return False, f"op {k}: unite({op[1]},{op[2]}) should return {want}"
            elif op[0] == "Q":
                if o[1] != (blk(op[1]) is blk(op[2])):
                    return False, f"op {k}: find({op[1]}) == find({op[2]}) is {o[1]}"
            elif op[0] == "L":
                want = sorted(sorted(b) for b in blocks)
                if o[1] != want or o[2] != len(blocks):
                    return False, f"op {k}: to_list/len should be {want}/{len(blocks)}, got {o[1]}/{o[2]}"
            else:
                bl = [sorted(b) for b in blocks]
                want = []
                for bits in range(1 << len(bl)):
                    one = [x for i, g in enumerate(bl) if bits >> i & 1 for x in g]
                    two = [x for i, g in enumerate(bl) if not bits >> i & 1 for x in g]
                    if one and two and min(one) < min(two):
                        want.append([[sorted(one), sorted(two)], 2])
                if o[1] == [[[[0]], -7]]:
                    return False, f"op {k}: merging the two blocks of a coarsening returned by binary() changed the structure it was derived from (the results are not independent copies)"
                if sorted(want) != o[1]:
                    return False, f"op {k}: binary() should list exactly {len(want)} two-block coarsenings, each once; got {o[1]}"
        return True, "history agrees with the naive partition"

    def nontriv_dsu(c, r):
        if "ok" not in r:
            return False
        return any(o == ["b", True] for o in r["ok"]) and any(o[0] == "B" and len(o[1]) >= 3 for o in r["ok"])

    ctx.dist["dsu"] = {"exhaustive_histories": n_exh, "random_histories": n_rand,
                       "with_out_of_range": sum(1 for c in dcases if any(x >= c["n"] for op in c["ops"] for x in op[1:]))}
    yield Batch(
        name="dsu", header=HDR_DSU,
        run="fun '(n, ops) => run_ops ops (make n)", eqb="out_eqb",
        ty_in="nat * list op", ty_out="option (res (list obs))",
        cases=dcases, impl=impl_dsu,
        enc_in=lambda c: cpair(str(c["n"]), clist(enc_op(o) for o in c["ops"])),
        enc_out=lambda c, r: cres(r, lambda v: clist(enc_obs(o) for o in v)),
        oracle=oracle_dsu, nontrivial=nontriv_dsu, exhaustive=False, shard=600,
        describe=f"all unite histories of length <= {hist_len} on {n0} elements (ordered pairs incl. a=b) each followed by to_list/len, binary, to_list; "
                 f"{n_rand} random mixed histories on 0..12 elements",
    )

    # ========================================= (b) tree_from_triples / all trees
    def triples_on(ls):
        out = []
        for x, y, z in itertools.combinations(ls, 3):
            out += [[x, y, z], [x, z, y], [y, z, x]]
        return out

    tcases = []
    t4 = triples_on(range(4))
    subsets4 = list(range(1 << len(t4)))
    if quick:
        subsets4 = sorted(set(rng.sample(subsets4, 560)) | {0, 1, 2, 4095} | {1 << i for i in range(12)} | {3 << i for i in range(11)})
    for m in subsets4:
        tcases.append({"leaves": [0, 1, 2, 3], "triples": [t for i, t in enumerate(t4) if m >> i & 1]})
    for ls in ([], [0], [1, 0], [0, 1, 2], [2, 0, 1]):
        ts3 = triples_on(sorted(ls))
        for m in range(1 << len(ts3)):
            tcases.append({"leaves": ls, "triples": [t for i, t in enumerate(ts3) if m >> i & 1]})
    n_exh_t = len(tcases)
    n_rand_t = 300 if quick else 6000
    for _ in range(n_rand_t):
        n = rng.choice([5, 5, 6])
        ls = list(range(n))
        rng.shuffle(ls)
        x = rng.random()
        if x < 0.55:     # mostly compatible: triples of one random tree, a few foreign ones
            base = rand_binary(rng, ls)
            cl, lm = clades(base), (1 << n) - 1
            pool = [t for t in triples_on(range(n)) if displays(cl, lm, t)]
            ts = rng.sample(pool, rng.randint(0, min(len(pool), 8)))
            if rng.random() < 0.3:
                ts += rng.sample(triples_on(range(n)), 1)
        else:
            ts = rng.sample(triples_on(range(n)), rng.randint(0, 6))
        ts = [list(t) for t in ts]
        if rng.random() < 0.3:   # the routines accept the first two leaves in any order, and repeated triples
            ts = [[t[1], t[0], t[2]] if rng.random() < 0.5 else t for t in ts]
            if ts:
                ts.append(list(rng.choice(ts)))
        rng.shuffle(ts)
        if rng.random() < 0.04 and ts:  # malformed: a leaf that is not in the leaf list
            ts[rng.randrange(len(ts))][rng.randrange(3)] = 7
        tcases.append({"leaves": ls, "triples": ts})

    def impl_tr(c):
        ls = [str(x) for x in c["leaves"]]
        ts = [tuple(str(x) for x in t) for t in c["triples"]]
        try:
            one = T.tree_from_triples(list(ls), list(ts))
            one_r = {"ok": None if one is None else clades(from_ete(one))}
        except Exception as e:  # noqa: BLE001
            one_r = {"err": exc_name(e)}
        try:
            al = T.all_trees_from_triples(list(ls), list(ts))
            all_r = {"ok": sorted(clades(from_ete(t)) for t in al)}
        except Exception as e:  # noqa: BLE001
            all_r = {"err": exc_name(e)}
        return {"one": one_r, "all": all_r}

    oracle_cache = {}

    def displaying_trees(ls, ts):
        key = tuple(sorted(ls))
        if key not in oracle_cache:
            oracle_cache[key] = [clades(t) for t in all_binary(sorted(ls))] if ls else []
        lm = sum(1 << x for x in ls)
        return sorted(cl for cl in oracle_cache[key] if all(displays(cl, lm, t) for t in ts))

    def oracle_tr(c, r):
        ls, ts = c["leaves"], c["triples"]
        if len(set(ls)) != len(ls) or any(x not in ls for t in ts for x in t) or any(len(set(t)) != 3 for t in ts):
            return True, "triples not over the (distinct) leaf list: outside the property's domain"
        want = displaying_trees(ls, ts)
        if "err" in r["all"] or "err" in r["one"]:
            return False, f"implementation raised {r['all'].get('err') or r['one'].get('err')}"
        if r["all"]["ok"] != want:
            return False, (f"all_trees_from_triples must return exactly the {len(want)} binary trees displaying every triple, each once; "
                           f"it returned {len(r['all']['ok'])} trees ({sum(1 for x in r['all']['ok'] if x not in want)} not displaying or not binary, "
                           f"{len(r['all']['ok']) - len({tuple(x) for x in r['all']['ok']})} repeated)")
        one = r["one"]["ok"]
        if (one is not None) != bool(want):
            return False, f"tree_from_triples returned {'a tree' if one is not None else 'None'} but {len(want)} displaying binary trees exist"
        if one is not None:
            lm = sum(1 << x for x in ls)
            if max(one) != lm or sorted(m for m in one if m & (m - 1) == 0) != sorted(1 << x for x in ls):
                return False, "tree_from_triples: wrong leaf set"
            bad = [t for t in ts if not displays(one, lm, t)]
            if bad:
                return False, f"tree_from_triples: returned tree does not display {bad[0]}"
        return True, "results agree with the filter over all binary trees"

    def nontriv_tr(c, r):
        return len(c["triples"]) >= 2 and "ok" in r["all"] and (len(r["all"]["ok"]) >= 1 or len(c["leaves"]) >= 4)

    ctx.dist["triples"] = {"enumerated": n_exh_t, "random_5_6_leaves": n_rand_t,
                           "sizes": {str(k): sum(1 for c in tcases if len(c["leaves"]) == k) for k in range(7)}}

    def enc_tr_in(c):
        return cpair(clist(str(x) for x in c["leaves"]), clist(cpair(*(str(x) for x in t)) for t in c["triples"]))

    yield Batch(
        name="triples", header=HDR_TR,
        run="fun '(ls, ts) => (map_res (option_map canon_tree) (tree_from_triples ls ts), map_res canon_trees (all_trees sorted_distinct ls ts))",
        eqb="fun a b => res_eqb (opt_eqb lN_eqb) (fst a) (fst b) && res_eqb llN_eqb (snd a) (snd b)",
        ty_in="list nat * list triple",
        ty_out="option (res (option (list N))) * option (res (list (list N)))",
        cases=tcases, impl=impl_tr, enc_in=enc_tr_in,
        enc_out=lambda c, r: cpair(cres(r["one"], lambda v: copt(None if v is None else clist(map(cN, v)))),
                                   cres(r["all"], lambda v: clist(clist(map(cN, t)) for t in v))),
        oracle=oracle_tr, nontrivial=nontriv_tr, exhaustive=False, shard=40,
        describe=("all 4096 subsets" if not quick else f"{len(subsets4)} subsets") + " of the 12 triples on 4 leaves, all subsets on <= 3 leaves, "
                 f"{n_rand_t} random triple lists on 5-6 leaves; single tree compared by clade set, all trees as sorted multiset of clade sets",
    )

    # ======================================================= (c) round trip
    rcases = []
    for n in range(1, 6):
        for perm in itertools.permutations(range(n)):
            for t in all_ordered_binary(list(perm)):
                rcases.append({"tree": t})
    n_exh_r = len(rcases)
    for _ in range(60 if quick else 1500):
        n = rng.choice([6, 7])
        rcases.append({"tree": rand_binary(rng, range(n))})

    def impl_rt(c):
        t = to_ete(c["tree"])
        try:
            ls, ts = T.tree_to_triples(t)
            back = T.tree_from_triples(list(ls), list(ts))
            return {"ok": {"leaves": [int(x) for x in ls], "triples": [[int(x) for x in tr] for tr in ts],
                           "rebuilt": None if back is None else clades(from_ete(back)),
                           "untouched": from_ete(t) == c["tree"]}}
        except Exception as e:  # noqa: BLE001
            return {"err": exc_name(e)}

    def oracle_rt(c, r):
        if "err" in r:
            return False, f"implementation raised {r['err']} on a binary tree"
        o = r["ok"]
        want = clades(c["tree"])
        if o["leaves"] != leaves(c["tree"]):
            return False, "tree_to_triples: wrong leaf list"
        if o["rebuilt"] != want:
            return False, f"decomposing and rebuilding changed the clades: {want} -> {o['rebuilt']}"
        lm = max(want)
        bad = [t for t in o["triples"] if not displays(want, lm, t)]
        if bad:
            return False, f"tree_to_triples emitted {bad[0]}, which the tree does not display"
        return True, "round trip keeps the clades"

    ctx.dist["roundtrip"] = {"enumerated_trees_up_to_5_leaves": n_exh_r, "random_6_7_leaves": len(rcases) - n_exh_r}
    yield Batch(
        name="roundtrip", header=HDR_TR + r"""
(* model: leaf list, and for every pop order the triple list with the clades of the tree rebuilt from it *)
Definition rt_run (t : tree) : res (list nat * list (list triple * res (option (list N)))) :=
  bs <- all_breakups (size t) t ;;
  Ok (leaves_of t, map (fun ts => (ts, map_res (option_map canon_tree) (tree_from_triples (leaves_of t) ts))) bs).
(* the implementation's (leaves, triples, rebuilt clades) must be one of the model's outcomes *)
Definition rt_eqb (a : res (list nat * list (list triple * res (option (list N)))))
                  (b : option (res (list nat * list triple * option (list N)))) : bool :=
  match a, b with
  | Ok (ls, outs), Some (Ok (ls', ts', cl')) =>
      all2 Nat.eqb ls ls' &&
      existsb (fun o => all2 tr_eqb (fst o) ts' && res_eqb (opt_eqb lN_eqb) (snd o) (Some (Ok cl'))) outs
  | Err e, Some (Err e') => err_eqb e e'
  | _, _ => false
  end.
""",
        run="rt_run", eqb="rt_eqb",
        ty_in="tree", ty_out="option (res (list nat * list triple * option (list N)))",
        cases=rcases, impl=impl_rt, enc_in=lambda c: ctree(c["tree"]),
        enc_out=lambda c, r: cres(r, lambda o: cpair(clist(map(str, o["leaves"])), clist(cpair(*map(str, t)) for t in o["triples"]),
                                                    copt(None if o["rebuilt"] is None else clist(map(cN, o["rebuilt"]))))),
        oracle=oracle_rt, nontrivial=lambda c, r: len(leaves(c["tree"])) >= 4, exhaustive=False, shard=150,
        describe="every plane binary tree with every leaf labelling on 1..5 leaves, random ones on 6-7 leaves; the implementation's triple list must be "
                 "one of the lists the model yields over all pop orders, with the same rebuilt clades",
    )

    # ========================================================= (d) supertree
    scases = []
    for _ in range(250 if quick else 4000):
        n = rng.choice([4, 5, 6, 6])
        if rng.random() < 0.75:
            base = rand_binary(rng, range(n))
            trees = []
            for _ in range(rng.randint(1, 4)):
                keep = set(rng.sample(range(n), rng.randint(2, n)))
                trees.append(restrict(base, keep))
        else:
            trees = [rand_binary(rng, rng.sample(range(n), rng.randint(3, n))) for _ in range(rng.randint(2, 3))]
        scases.append({"trees": trees})

    def impl_st(c):
        trees = [to_ete(t) for t in c["trees"]]
        # the functions take any iterable of trees: a list, a tuple, or a one-shot iterator / generator
        how = len(json.dumps(c["trees"])) % 4
        give = [lambda: trees, lambda: tuple(trees), lambda: iter(trees), lambda: (t for t in trees)][how]
        try:
            st = T.supertree(give())
            al = T.all_supertrees(give())
        except Exception as e:  # noqa: BLE001
            return {"err": exc_name(e)}
        res = {"found": st is not None, "displays_all": True, "n_all": len(al), "all_display": True}
        allmask = 0
        for t in c["trees"]:
            for x in leaves(t):
                allmask |= 1 << x
        if st is not None:
            cl = clades(from_ete(st))
            res["leafset_ok"] = max(cl) == allmask
            res["displays_all"] = all(displays(cl, allmask, tr) for t in c["trees"] for tr in all_triples(t))
        else:
            res["leafset_ok"] = True
        for s in al:
            cl = clades(from_ete(s))
            if max(cl) != allmask or not all(displays(cl, allmask, tr) for t in c["trees"] for tr in all_triples(t)):
                res["all_display"] = False
        return {"ok": res}

    def all_triples(t):
        cl, lm = clades(t), sum(1 << x for x in leaves(t))
        return [tr for tr in triples_on(sorted(leaves(t))) if displays(cl, lm, tr)]

    def oracle_st(c, r):
        if "err" in r:
            return False, f"implementation raised {r['err']}"
        o = r["ok"]
        ls = sorted({x for t in c["trees"] for x in leaves(t)})
        need = [tr for t in c["trees"] for tr in all_triples(t)]
        want = displaying_trees(ls, need)
        if o["found"] and not (o["displays_all"] and o["leafset_ok"]):
            return False, "supertree returned a tree that does not display every input tree"
        if not o["all_display"]:
            return False, "all_supertrees returned a tree that does not display every input tree"
        if o["found"] != bool(want):
            return False, f"supertree found={o['found']} but {len(want)} binary trees display all inputs"
        if o["n_all"] != len(want):
            return False, f"all_supertrees returned {o['n_all']} trees, {len(want)} binary trees display all inputs"
        return True, "supertree displays every input"

    ctx.dist["supertree"] = {"cases": len(scases), "input_trees": {str(k): sum(1 for c in scases if len(c["trees"]) == k) for k in range(1, 5)}}
    yield Batch(
        name="supertree", header=HDR_TR + r"""
Fixpoint dedup (l : list nat) : list nat := match l with [] => [] | x :: r => if mem x r then dedup r else x :: dedup r end.
Fixpoint first_breakups (ts : list tree) : res (list triple) :=
  match ts with
  | [] => Ok []
  | t :: r => bs <- all_breakups (size t) t ;; b <- get bs 0 ;; rest <- first_breakups r ;; Ok (b ++ rest)
  end.
(* model supertree under one pop order: (found, displays every triple of every input, number of binary supertrees, all of them display) *)
Definition st_run (ts : list tree) : res (bool * bool * nat * bool) :=
  let ls := dedup (flat_map leaves_of ts) in
  trs <- first_breakups ts ;;
  one <- tree_from_triples ls trs ;;
  al <- all_trees sorted_distinct ls trs ;;
  let need := flat_map triples_of ts in
  Ok (match one with None => false | Some _ => true end,
      match one with None => true | Some s => forallb (displaysb s) need end,
      length al, forallb (fun s => forallb (displaysb s) need) al).
Definition st_eqb (a : res (bool * bool * nat * bool)) (b : option (res (bool * bool * nat * bool))) : bool :=
  res_eqb (fun x y => let '(f, d, n, e) := x in let '(f', d', n', e') := y in
                      Bool.eqb f f' && Bool.eqb d d' && (n =? n') && Bool.eqb e e') a b.
""",
        run="st_run", eqb="st_eqb",
        ty_in="list tree", ty_out="option (res (bool * bool * nat * bool))",
        cases=scases, impl=impl_st, enc_in=lambda c: clist(ctree(t) for t in c["trees"]),
        enc_out=lambda c, r: cres(r, lambda o: cpair(cbool(o["found"]), cbool(o["displays_all"] and o["leafset_ok"]), str(o["n_all"]), cbool(o["all_display"]))),
        oracle=oracle_st, nontrivial=lambda c, r: sum(1 for t in c["trees"] if len(leaves(t)) >= 3) >= 2,
        exhaustive=False, shard=40,
        describe="supertree/all_supertrees of restrictions of one random binary tree (compatible) and of unrelated random trees on 4-6 leaves: "
                 "existence, display of every input, number of binary supertrees (the model uses one fixed pop order; results compared are order-independent)",
    )


OPEN_GOALS: list = []

TECHNIQUE = ("translator tie: the source module is regenerated into Gallina on every run and proved equal to the model; Coq proofs (invariant of union-find with path compression and union by rank; induction on union histories, on the group list of "
             "_binary, on fuel for BUILD/AllTrees, Aho et al. argument for completeness) of model = specification; model tied to the code by "
             "exhaustive small-domain + random correspondence evaluated with vm_compute")
LEVEL_TEXT = ("Machine-checked theorems, for every size: on every state reachable from DisjointSet(n) by in-range calls, to_list is the partition of the "
              "equivalence generated by the united pairs (non-empty, disjoint, covering groups; same group iff related), len its number of blocks, "
              "unite returns true iff two blocks merged, find returns a canonical element, no call raises (dsu_to_list, dsu_unite, dsu_find); binary() "
              "returns each two-block coarsening exactly once for every iteration order of the representative set (dsu_binary). "
              "tree_from_triples never raises on triples over a duplicate-free leaf list, a returned tree has exactly the given leaves and displays every "
              "triple (build_sound), and it returns a tree whenever any tree displays every triple (build_complete); all_trees_from_triples returns only "
              "binary displaying trees on the leaf set, no clade set twice (all_trees_sound_nodup, all_trees_once), and every binary displaying tree "
              "(all_trees_complete). For every binary tree with distinct leaves and every pop order of BreakUp, rebuilding from the emitted triples gives "
              "the same clades (breakup_roundtrip), BreakUp never fails (tree_to_triples_total), and the tree built from the union of the triple sets of "
              "several binary trees displays every triple any of them displays (supertree_displays). "
              "Correspondence: all unite histories up to length 3 (quick) / 4 (thorough) on 5 elements + random mixed histories to 12 "
              "elements; all subsets of the 12 triples on 4 leaves (thorough; ~600 in quick) + random triple lists on 5-6 leaves; every plane binary tree "
              "on <= 5 leaves for the round trip; random compatible/incompatible tree sets for supertree. DisjointSet (find, unite, len, to_list, binary) and tree_from_triples / all_trees_from_triples are also translated into Gallina on every run (Gen/DsuGen.v, Gen/BuildGen.v) and proved equal to the models for ALL inputs, errors included (C20_gen_dsu_binary_eq, C20_gen_dsu_binary_total, C20_gen_tree_from_triples_eq_all, C20_gen_all_trees_from_triples_eq_all); tree_to_triples and the supertree functions remain hand-written models tied by correspondence.")
LEVEL_NOTE = ("Trusted: Coq kernel; the translator pyfun.py (fail-closed, declared type table); the hand-written models (correspondence is differential testing on the explored domain, not proof). "
              "trees_to_triples (union of the per-tree results through Python sets) is not modelled as a function: supertree_displays is stated for every "
              "leaf list / triple list with the same elements as the unions, and the correspondence batch 'supertree' lets the model run BreakUp with one "
              "fixed pop order, so it compares only order-independent observations (existence, 'displays every input tree', number of binary supertrees). "
              "tree_to_triples pops from a set of node objects whose order is not observable: batch 'roundtrip' checks that the implementation's triple list is "
              "one of the lists the model yields over all pop orders, with the same rebuilt clades. "
              "binary() is compared as a multiset of canonical partitions (the property does not fix the enumeration order); the iteration order of the "
              "Python set of representatives is not recorded because the theorem covers every order. "
              "find's representative, the order of groups in to_list and the child order of returned trees are implementation details not fixed by the "
              "property: compared only through canonical forms (a rank bookkeeping change that keeps the partition is therefore not reported). "
              "Theorems about triples assume distinct leaf names and triples whose third leaf differs from the first two; supertree_displays is stated for "
              "genuine triples (first two leaves different). All theorems closed under the global context (no axioms).")
