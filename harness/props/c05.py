"""C05 — ALL returns exactly the optimal solutions, ANY returns one of them."""
from __future__ import annotations

import json

from ..core import Batch, Finding
from .. import recon as R
from .. import labelled as LB
from . import c01, c02, c03

ID = "C05"
LEVEL = "proof"
PROP_FILE = "Properties/C05.v"
PROOF_FILES = ["Proofs/AllAnyProofs.v", "Proofs/SpfsFinal.v", "Proofs/SpfsProofs.v", "Proofs/UspfsFinal.v", "Proofs/UspfsProofs.v", "Proofs/ThlFinal.v", "Proofs/ThlProofs.v", "Proofs/ExhProofs.v", "Proofs/DpProofs.v", "Proofs/EntryProofs.v",
               "Proofs/ReconProofs.v", "Proofs/PathFacts.v", "Model/Thl.v", "Model/Spfs.v", "Model/Uspfs.v", "Model/Recon.v", "Model/Entry.v"]
TRUSTED = c01.TRUSTED + c02.TRUSTED + c03.TRUSTED
ASSUMES = ["binary trees", "coherent cost vectors (F-COHERENCE)"]
RULE = ("same inputs as C01-C03 (coherent costs); for each, the ALL result of thl, exh, base/ext spfs, base/ext uspfs is compared as a set with the complete optimal set of a brute-force oracle "
        "(canonical optimal set for the unordered solvers) and the ANY result must be a single member of it; non-trivial = the optimal set has at least two elements")
OPEN_GOALS: list = []
TECHNIQUE = "Coq proof of exactness of ALL / singleton ANY for thl, exh, base/ext SPFS and base/ext USPFS (Entry tag laws + decode soundness and completeness); complete optimal sets also computed by a brute-force oracle"
LEVEL_TEXT = ("Machine-checked inside the coherent region (exh: any costs): for thl, exh, base/ext SPFS the ALL result is exactly the set of minimum-cost solutions, without repetition; for base/ext USPFS exactly the "
              "minimum-cost canonical solutions; under ANY exactly one solution, member of that set (SPFS: none iff no solution exists); all returned solutions have the same cost; thl = exh; for the unordered solvers the English clause reads through C05_uspfs_all_exact_global (ALL = the canonical solutions whose cost is minimal among ALL valid labellings). "
              "The models agree with the code on ALL sets and ANY membership, and the ALL sets are compared with complete (canonical) optimal sets computed by brute force.")
LEVEL_NOTE = "Trusted: Coq kernel, hand-written models, correspondence, the independent Python oracle. No axioms."


def _opt_ordered(case, lca_only):
    orders = LB.compatible_orders(case["O"]) if case.get("pres") is None else [list(case["pres"])]
    if not orders:
        return None, set()
    return LB.best_ordered(case["S"], case["O"], case["costs"], orders, lca_only=lca_only)


def oracle_unordered_exact(case, r):
    S, O, c = case["S"], case["O"], case["costs"]
    for name, lca_only in (("ext", False), ("base", True)):
        if r.get(name) is None:
            return False, f"{name} raised {r.get(name + '_error')}"
        m_all, _ = LB.best_unordered(S, O, c, lca_only=lca_only)
        m, opt = LB.best_unordered(S, O, c, lca_only=lca_only, canonical_only=True)
        if m != m_all:
            return False, f"{name}: canonical labellings reach {m}, all labellings reach {m_all}"
        got = {json.dumps(x) for x in r[name]}
        if len(got) != len(r[name]):
            return False, f"{name}: a solution is returned twice"
        if got != opt:
            return False, f"{name}: 'all' returned {len(got)} solutions, the canonical optimal set has {len(opt)}"
        a = r[name + "_any"]
        if len(a) != 1 or json.dumps(a[0]) not in opt:
            return False, f"{name}: 'any' must return exactly one optimal solution"
    return True, "exact canonical optimal set"


def batches(ctx):
    rng = ctx.rng
    quick = ctx.quick()
    pc = c01.gen_cases(ctx, 3, 2, 300 if quick else 4000, 5, 6)
    b = c01.thl_batch(ctx, "thl_exact", pc, "thl / exh: ALL sets against the complete optimal set, ANY membership")
    b.nontrivial = lambda c, r: "error" not in r and len(r["all"]) >= 2
    yield b
    oc = [c02.rand_case(rng, 4, 3, 3) for _ in range(300 if quick else 3000)]
    b = c02.make_batch("spfs_exact", oc, "base/ext SPFS: ALL sets against the complete optimal set over orders x mappings x labellings")
    b.nontrivial = lambda c, r: "error" not in r and bool(r.get("ext")) and len(r["ext"]) >= 2
    yield b
    uc = [c03.rand_case(rng, 5, 3, 4) for _ in range(300 if quick else 3000)]
    # nested INHERIT chains (where decoding and the INHERIT cells matter) need >= 5 leaves on a caterpillar
    uc += [c03.rand_case(rng, 6, 4, 4, chain=0.6, band=0.15) for _ in range(1500 if quick else 8000)]
    b = c03.make_batch("uspfs_exact", uc, "base/ext USPFS: ALL sets against the canonical optimal set")
    b.oracle = oracle_unordered_exact
    b.nontrivial = lambda c, r: bool(r.get("ext")) and len(r["ext"]) >= 2
    yield b


def extra(ctx):
    """complete optimal sets from the brute-force oracle, on a sample (a test supporting the models)"""
    rng = ctx.rng
    n = 45 if ctx.quick() else 450
    bad = 0
    for i in range(n):
        if i % 3 == 0:
            S = R.rand_shape(rng, rng.randint(1, 4))
            case = {"S": S, "O": R.rand_otree(rng, rng.randint(1, 4), R.shape_leaves(S)), "costs": R.rand_costs(rng, plain=True)}
            r = c01.impl_thl(case)
            ok, why = c01.oracle_thl(case, r)
        elif i % 3 == 1:
            case = c02.rand_case(rng, 4, 3, 3)
            r = c02.impl(case)
            ok, why = c02.oracle(case, r)
        else:
            case = c03.rand_case(rng, 4, 3, 3)
            r = c03.impl(case)
            ok, why = oracle_unordered_exact(case, r)
        ctx.evaluations += 1
        if not ok:
            ctx.findings.append(Finding("exact_sample", case, r, "(complete optimal set)", False, why))
            bad += 1
    ctx.notes.append(f"complete optimal sets checked on {n} random inputs, {bad} failures")


def search(ctx):
    """failing-input search: fresh inputs judged by the complete (canonical) optimal sets of the brute-force oracle alone"""
    import time
    rng = ctx.rng
    t0 = time.time()
    budget = 150 if ctx.quick() else 900
    n = 0
    broken = {f.batch for f in ctx.findings}
    kinds = [k for k in ("thl_exact", "spfs_exact", "uspfs_exact") if k in broken] or ["thl_exact", "spfs_exact", "uspfs_exact"]
    while time.time() - t0 < budget:
        kind = kinds[n % len(kinds)]
        n += 1
        if kind == "thl_exact":
            S = R.rand_shape(rng, rng.randint(2, 5))
            case = {"S": S, "O": R.rand_otree(rng, rng.randint(2, 5), R.shape_leaves(S)), "costs": R.rand_costs(rng, plain=True)}
            r = c01.impl_thl(case)
            ok, why = c01.oracle_thl(case, r)
        elif kind == "spfs_exact":
            case = c02.rand_case(rng, 5, 3, 3)
            r = c02.impl(case)
            ok, why = c02.oracle(case, r)
        else:
            case = c03.rand_case(rng, 6, 4, 4, chain=0.7)
            r = c03.impl(case)
            ok, why = oracle_unordered_exact(case, r)
        ctx.evaluations += 1
        if ok is False:
            ctx.notes.append(f"failing-input search: violation found after {n} fresh inputs")
            return Finding(kind, case, r, "(complete optimal set)", False, why)
    ctx.notes.append(f"failing-input search: {n} fresh inputs, none violates the property")
    return None


def replay_case(payload):
    """exact_sample findings: which solver the stored input belongs to is read off its shape"""
    case = payload["case"]
    leaves = R.otree_leaves(case["O"])
    if all(not l.get("syn") for _, l in leaves):
        r = c01.impl_thl(case)
        ok, why = c01.oracle_thl(case, r)
    elif "pres" in case:
        r = c02.impl(case)
        ok, why = c02.oracle(case, r)
    else:
        r = c03.impl(case)
        ok, why = oracle_unordered_exact(case, r)
    return ok, why, r
