"""Regenerate /verif/MANIFEST.json from the property modules that exist."""
import importlib
import json
from pathlib import Path

VERIF = Path(__file__).resolve().parent.parent
ALL = [f"C{i:02d}" for i in range(1, 21)]


def main():
    checks, na = [], []
    for pid in ALL:
        try:
            mod = importlib.import_module(f"harness.props.{pid.lower()}")
        except ModuleNotFoundError:
            na.append({"property_id": pid, "reason": "check not built yet (planned in DESIGN.md section 7); not a statement that the technique cannot apply"})
            continue
        checks.append({
            "property_id": pid,
            "quick_cmd": f"./check {pid} --tier quick",
            "thorough_cmd": f"./check {pid} --tier thorough",
            "evidence_file": f"evidence/{pid}.json",
            "replay_cmd_template": f"./check {pid} --replay {{path}}",
            "engine": "coq-proof+correspondence",
            "level_claimed": {"category": mod.LEVEL, "text": mod.LEVEL_TEXT, "design_ref": f"DESIGN.md section 0 (status table, row {pid}: what was built) and section 7, {pid} (the original plan)"},
            "level_note": mod.LEVEL_NOTE,
            "technique": mod.TECHNIQUE,
        })
    man = {
        "version": 1,
        "setup_cmd": "./setup.sh",
        "hooks": {
            "guard": "SUPERREC2_VERIF",
            "enable": "no source hooks are needed: checks import /repo/src directly (PYTHONPATH=$VERIF_REPO/src) and stub the TeX measurer by monkey-patching in the harness process",
            "baseline_off_cmd": "cd /repo && /venv/bin/python -m pytest -ra -q -p no:cacheprovider --timeout=900 --continue-on-collection-errors",
            "source_commits": [],
            "add_only": True,
        },
        "engines": [{
            "name": "coq-proof+correspondence", "path": "coq/ harness/",
            "serves_properties": [c["property_id"] for c in checks],
            "kind_free_text": "Coq 8.16.1 theorems about hand-written executable Gallina models (coq/Model, coq/Proofs, coq/Properties) and about files regenerated from the source by fail-closed translators (coq/Gen); the models are tied to /repo on every run by a correspondence check that evaluates them inside Coq (vm_compute) on the same generated cases as the implementation",
        }],
        "checks": checks,
        "not_applicable": na,
        "notes": "See DESIGN.md. Known findings are listed in known_findings.jsonl; seeded breaking changes used to validate the checks are under seeded/.",
    }
    (VERIF / "MANIFEST.json").write_text(json.dumps(man, indent=1) + "\n")
    print(f"{len(checks)} checks, {len(na)} unclaimed")


if __name__ == "__main__":
    main()
