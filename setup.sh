#!/bin/bash
# MANIFEST.setup_cmd: full .vo build of the Coq development (offline), lint.
set -e
cd "$(dirname "$(readlink -f "$0")")"
mkdir -p build/tmp evidence replays
export PYTHONPATH="${VERIF_REPO:-/repo}/src:$PWD" PYTHONDONTWRITEBYTECODE=1 TQDM_DISABLE=1
/venv/bin/python - <<'PY'
from harness import core
import sys
try:
    from harness import gen_all
    gen_all.regenerate()
except ImportError:
    pass
core.refresh_coqproject()
ok, out = core.build_targets(["all"], timeout=3500)
print(out[-3000:])
bad = core.lint()
if bad:
    print("LINT:", *bad, sep="\n  ")
    sys.exit(2)
sys.exit(0 if ok else 2)
PY
