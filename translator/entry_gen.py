"""Fail-closed translator: `$VERIF_REPO/src/superrec2/utils/dynamic_programming.py` -> `coq/Gen/EntryGen.v`.

The enums `MergePolicy` and `RetentionPolicy`, the frozen dataclass `Candidate` and, of the class
`Entry`, the default-initialising path of `__init__` (generated name `gen_entry_init`) and the
methods `is_infinite`, `value`, `infos`, `update` (`gen_entry_<name>`) and `combine`
(`gen_entry_combine`) are translated statement by statement by `translator/pyfun.py` (see its
docstring for the handled subset and the shape of the output).  `info`, `__eq__`, `__iter__`,
`__len__`, `EntryProxy`, `Table`, `TableProxy` are not translated.  The object is the record
`entry_state` of its attributes `_value`, `_infos`, `_merge_policy`, `_retention_policy`;
`__init__` returns `res entry_state`, every other method `res (entry_state * result)`.
`coq/Proofs/EntryGenProofs.v` proves the generated functions equal to the hand-written model
`coq/Model/Entry.v` for all states and arguments.  Any construct outside the subset, a definition
missing or made twice, an import that is not the expected one, or a variable without a declared
type raises `TranslatorAbort` with file:line.  The output file is rewritten only when its content
changes.

What this driver supplies, i.e. the assumptions of the tie:

* values (`ValueTypeT | Infinity`) are extended integers: the type `ext` of `coq/Base/Ext.v`
  (`NInf | Fin z | PInf`); `==`, `<`, `>` on them are `ext_eqb`, `ext_ltb`; `inf`/`-inf` (package
  `infinity`) are `PInf`/`NInf` and `infinity.is_infinite` is `ext_is_inf`;
* info tags are the elements `A` of the generated Section, compared with its `eqb` (Python: hash
  and `==`, i.e. hashable = decidable equality); a candidate's `info` is `option A` where `None`
  stands for every falsy info, and **every tag is truthy** (`if info and ..` is true exactly for
  `Some`): the harness only uses non-empty strings and tuples as tags;
* a Python `set` of tags is a duplicate-free list in insertion order: `set()` = `nil`, `{x}` =
  `[x]`, `s.add(x)` = append unless present, `not s` = emptiness, iteration = list order.  Python
  fixes no iteration order for sets: `combine`, the only place that iterates, is therefore
  translated for the order given by the two lists, and its theorem holds for all lists (so for
  every enumeration order); `update` never iterates a set;
* `Entry.__init__` is translated for the calls `Entry(merge_policy, retention_policy)` only: its
  parameters `value`, `infos` are declared as the two enums and `merge_policy`,
  `retention_policy` as omitted (`none`); the declared types then decide the `isinstance`/`is None`
  test and the other branch is not translated;
* `update(*candidates)` takes the candidates as one list; `combine`'s `combinator` is a pure total
  function `Candidate A -> Candidate A -> Candidate U` that raises nothing; the combined entry has
  tags in a second type `U` with its own equality `eqb2`; `other` is an `Entry` (not an
  `EntryProxy`).
"""
from __future__ import annotations

import ast
import os
import sys
from pathlib import Path
from typing import Optional

sys.path.insert(0, str(Path(__file__).resolve().parent.parent))
from translator.pyfun import ClassSpec, DataSpec, FunSpec, TranslatorAbort, Unit  # noqa: E402

VERIF = Path(__file__).resolve().parent.parent
OUT = VERIF / "coq" / "Gen" / "EntryGen.v"
SOURCE = ("src", "superrec2", "utils", "dynamic_programming.py")

CANDIDATE = DataSpec("Candidate", {"value": "ext", "info": "option elem"})
FIELDS = {"_value": "ext", "_infos": "set", "_merge_policy": "MergePolicy", "_retention_policy": "RetentionPolicy"}
ENTRY = ClassSpec("Entry", "entry", FIELDS, [
    FunSpec("__init__", {"value": "MergePolicy", "infos": "RetentionPolicy", "merge_policy": "none",
                         "retention_policy": "none"}, "", alias="entry_init"),
    FunSpec("is_infinite", {}, "bool", alias="entry_is_infinite", pure=True),
    FunSpec("value", {}, "ext", alias="entry_value", pure=True),
    FunSpec("infos", {}, "set", alias="entry_infos", pure=True),
    FunSpec("update", {"candidates": "list Candidate", "candidate": "Candidate", "is_min": "bool", "is_max": "bool",
                       "is_any": "bool", "is_all": "bool", "value": "ext", "info": "option elem"}, "unit",
            alias="entry_update"),
])
COMBINE = FunSpec("combine", {"other": "Entry", "combinator": "Candidate -> Candidate -> Candidate2",
                              "result": "Entry2", "ours": "elem", "theirs": "elem"}, "Entry2", alias="entry_combine")


def render(repo: Path) -> str:
    path = repo.joinpath(*SOURCE)
    if not path.is_file():
        raise TranslatorAbort(f"{path}:0: source file not found")
    try:
        tree = ast.parse(path.read_text(encoding="utf8"), filename=str(path))
    except SyntaxError as e:
        raise TranslatorAbort(f"{path}:{e.lineno}: syntax error: {e.msg}")
    unit = Unit(path, tree, truthy_elem=True, extended=True)
    unit.opaque("ext", "ext", eqb="ext_eqb", ltb="ext_ltb", leb="ext_leb")
    unit.constant("inf", "infinity", "ext", "PInf", neg="NInf")
    unit.external("is_infinite", "infinity", ["ext"], "bool", "ext_is_inf")
    unit.use_product()
    enums = [unit.enum("MergePolicy"), unit.enum("RetentionPolicy")]
    inside = [unit.dataclass(CANDIDATE), unit.klass(ENTRY)]
    section_defs = unit.section_defs()
    unit.begin_outside({"": ("A", None), "2": ("U", "eqb2")})
    outside = [unit.method("Entry", COMBINE)]
    return "\n".join([
        "(* GENERATED by translator/entry_gen.py (via translator/pyfun.py) from",
        "   src/superrec2/utils/dynamic_programming.py -- do not edit.  Statement-by-statement translation:",
        "   an assignment is a shadowing [let], the statements after an [if] are a continuation [k'n],",
        "   each loop is a [Fixpoint] returning [flow] ([Next] state / [Ret] early return / [Fail] error);",
        "   the object is the record [entry_state], [self.f] is the variable [self'f]; values are [ext]",
        "   (Base/Ext.v), a set of tags is a duplicate-free list ([set_add] = append unless present),",
        "   [if info and ..] is a [match] on the optional tag ([None] = falsy, tags are truthy);",
        "   [product(xs, ys)] is two nested Fixpoints; [combine] comes after the Section because its",
        "   result holds tags of a second type [U].  Proofs/EntryGenProofs.v proves these functions",
        "   equal to Model/Entry.v. *)",
        "From Coq Require Import List Bool ZArith NArith.",
        "From SR Require Import Base.Ext.",
        "",
        unit.prelude(),
        "\n\n".join(enums),
        "",
        "Section Gen.",
        "Context {A : Type} (eqb : A -> A -> bool).",
        "",
        section_defs,
        "\n\n".join(inside),
        "",
        "End Gen.",
        "Arguments Candidate : clear implicits.",
        "Arguments entry_state : clear implicits.",
        "",
        "Section Combine.",
        "Context {A U : Type} (eqb2 : U -> U -> bool).",
        "",
        "\n\n".join(outside),
        "",
        "End Combine.",
    ]) + "\n"


def regenerate(repo: Optional[Path] = None, out: Path = OUT) -> bool:
    """Translate and (re)write `out` if its content changed.  Returns True when written."""
    repo = Path(repo if repo is not None else os.environ.get("VERIF_REPO", "/repo"))
    text = render(repo)
    if out.exists() and out.read_text() == text:
        return False
    out.parent.mkdir(parents=True, exist_ok=True)
    tmp = out.with_suffix(".v.tmp")
    tmp.write_text(text)
    tmp.replace(out)
    return True


if __name__ == "__main__":
    try:
        target = Path(sys.argv[2]) if len(sys.argv) > 2 else OUT
        changed = regenerate(Path(sys.argv[1]) if len(sys.argv) > 1 else None, target)
    except TranslatorAbort as e:
        print("TranslatorAbort:", e, file=sys.stderr)
        sys.exit(2)
    print("written" if changed else "unchanged", target)
