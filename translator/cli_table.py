"""Fail-closed translator: `$VERIF_REPO/src/superrec2/cli/reconcile.py` -> `coq/Gen/CliTable.v`.

For every key of the module-level `algorithms` dict it records what
`call_algorithm` looks at through `inspect.signature`:

* the class the first parameter of the named function is annotated with
  (`ReconciliationInput` or `SuperReconciliationInput`, both from
  `superrec2.model.reconciliation`), and
* whether the function takes a second parameter annotated `RetentionPolicy`
  (from `superrec2.utils.dynamic_programming`).

Only plain shapes are accepted: `algorithms` assigned once, at module level, a
dict literal `{"key": name, ...}`; never mutated; every name imported with
`from superrec2.compute.<module> import name`; the function a top-level,
undecorated `def` in that module with one or two plain positional parameters
without defaults; the annotation names bound by a `from ... import` of the
expected module and never rebound.  Anything else raises `TranslatorAbort` with
`file:line` -- the check then reports a broken tie instead of guessing.

The output file is rewritten only when its content changes.
"""
from __future__ import annotations

import ast
import os
import sys
from pathlib import Path
from typing import Dict, List, Optional, Tuple

try:
    from harness.core import TranslatorAbort
except ImportError:  # stand-alone use: python translator/cli_table.py
    class TranslatorAbort(RuntimeError):
        pass

VERIF = Path(__file__).resolve().parent.parent
OUT = VERIF / "coq" / "Gen" / "CliTable.v"

INPUT_CLASSES = ("ReconciliationInput", "SuperReconciliationInput")
MODEL_MODULE = "superrec2.model.reconciliation"
POLICY_CLASS = "RetentionPolicy"
POLICY_MODULE = "superrec2.utils.dynamic_programming"
READ_ONLY_METHODS = {"items", "keys", "values", "get"}


def _abort(path: Path, node, msg: str):
    line = getattr(node, "lineno", 0)
    raise TranslatorAbort(f"{path}:{line}: {msg}")


def _parse(path: Path) -> ast.Module:
    if not path.is_file():
        raise TranslatorAbort(f"{path}:0: source file not found")
    try:
        return ast.parse(path.read_text(encoding="utf8"), filename=str(path))
    except SyntaxError as e:
        raise TranslatorAbort(f"{path}:{e.lineno}: syntax error: {e.msg}")


def _absolute_module(path: Path, src_root: Path, node: ast.ImportFrom) -> str:
    """Absolute dotted name of the module an ImportFrom refers to."""
    if node.level == 0:
        return node.module or ""
    pkg = list(path.relative_to(src_root).with_suffix("").parts[:-1])  # package of this module
    if node.level - 1 > len(pkg):
        _abort(path, node, "relative import leaves the source tree")
    base = pkg[: len(pkg) - (node.level - 1)]
    return ".".join(base + ([node.module] if node.module else []))


def _bindings(path: Path, src_root: Path, tree: ast.Module) -> Dict[str, List[Tuple[str, object]]]:
    """Every way a name gets bound anywhere in the module:
    name -> [("import", (absolute module, original name)) | ("def", node) | ("other", node)]."""
    out: Dict[str, List[Tuple[str, object]]] = {}

    def add(name, kind, what):
        out.setdefault(name, []).append((kind, what))

    for node in ast.walk(tree):
        if isinstance(node, ast.ImportFrom):
            mod = _absolute_module(path, src_root, node)
            for a in node.names:
                if a.name == "*":
                    _abort(path, node, "star import: cannot tell which names are bound")
                add(a.asname or a.name, "import", (mod, a.name, node))
        elif isinstance(node, ast.Import):
            for a in node.names:
                add((a.asname or a.name).split(".")[0], "other", node)
        elif isinstance(node, (ast.FunctionDef, ast.AsyncFunctionDef, ast.ClassDef)):
            add(node.name, "def", node)
        elif isinstance(node, ast.Name) and isinstance(node.ctx, (ast.Store, ast.Del)):
            add(node.id, "other", node)
        elif isinstance(node, (ast.Global, ast.Nonlocal)):
            for n in node.names:
                add(n, "other", node)
    return out


def _future_annotations(tree: ast.Module) -> Optional[ast.AST]:
    for node in tree.body:
        if isinstance(node, ast.ImportFrom) and node.module == "__future__" and any(a.name == "annotations" for a in node.names):
            return node
    return None


def _imported_as(path: Path, binds, name: str, node, want_module: str, want_name: str):
    """`name` must be bound exactly once in the module, by `from want_module import want_name`."""
    b = binds.get(name, [])
    if len(b) != 1 or b[0][0] != "import":
        _abort(path, node, f"annotation {name!r} is not bound by exactly one 'from ... import' in this module")
    mod, orig, _ = b[0][1]
    if mod != want_module or orig != want_name:
        _abort(path, node, f"annotation {name!r} comes from {mod}.{orig}, expected {want_module}.{want_name}")


def _signature(path: Path, binds, fn: ast.FunctionDef) -> Tuple[str, bool]:
    if fn.decorator_list:
        _abort(path, fn, f"function {fn.name} is decorated: its signature cannot be read off the source")
    a = fn.args
    if a.posonlyargs or a.vararg or a.kwonlyargs or a.kwarg or a.defaults or a.kw_defaults:
        _abort(path, fn, f"function {fn.name}: only plain positional parameters without defaults are handled")
    if len(a.args) not in (1, 2):
        _abort(path, fn, f"function {fn.name} has {len(a.args)} parameters; call_algorithm only calls functions with 1 or 2")
    first = a.args[0].annotation
    if not isinstance(first, ast.Name) or first.id not in INPUT_CLASSES:
        _abort(path, a.args[0], f"function {fn.name}: first parameter must be annotated with one of {INPUT_CLASSES}")
    _imported_as(path, binds, first.id, first, MODEL_MODULE, first.id)
    takes_policy = False
    if len(a.args) == 2:
        second = a.args[1].annotation
        if not isinstance(second, ast.Name) or second.id != POLICY_CLASS:
            _abort(path, a.args[1], f"function {fn.name}: second parameter must be annotated {POLICY_CLASS}")
        _imported_as(path, binds, second.id, second, POLICY_MODULE, POLICY_CLASS)
        takes_policy = True
    return first.id, takes_policy


def _check_algorithms_untouched(path: Path, tree: ast.Module, assign: ast.Assign):
    """No statement other than the one assignment may bind, mutate or alias-mutate `algorithms`."""
    for node in ast.walk(tree):
        if isinstance(node, ast.Name) and node.id == "algorithms" and isinstance(node.ctx, (ast.Store, ast.Del)):
            if node is not assign.targets[0]:
                _abort(path, node, "'algorithms' is bound a second time")
        elif isinstance(node, (ast.Global, ast.Nonlocal)) and "algorithms" in node.names:
            _abort(path, node, "'algorithms' declared global/nonlocal")
        elif isinstance(node, ast.Subscript) and isinstance(node.value, ast.Name) and node.value.id == "algorithms" \
                and isinstance(node.ctx, (ast.Store, ast.Del)):
            _abort(path, node, "'algorithms' is modified after its definition")
        elif isinstance(node, ast.Attribute) and isinstance(node.value, ast.Name) and node.value.id == "algorithms" \
                and node.attr not in READ_ONLY_METHODS:
            _abort(path, node, f"'algorithms.{node.attr}' is outside the handled subset")
        elif isinstance(node, ast.AugAssign) and isinstance(node.target, ast.Name) and node.target.id == "algorithms":
            _abort(path, node, "'algorithms' is modified after its definition")
        elif isinstance(node, (ast.FunctionDef, ast.AsyncFunctionDef, ast.Lambda)):
            args = node.args
            names = [x.arg for x in args.posonlyargs + args.args + args.kwonlyargs] + \
                    [x.arg for x in (args.vararg, args.kwarg) if x is not None]
            if "algorithms" in names:
                _abort(path, node, "a parameter shadows 'algorithms'")


def extract(repo: Path) -> List[Tuple[str, str, bool, str]]:
    """[(key, first-parameter class, takes policy, 'module.function')] in dict order."""
    src_root = repo / "src"
    cli = src_root / "superrec2" / "cli" / "reconcile.py"
    tree = _parse(cli)
    if _future_annotations(tree) is not None:
        pass  # harmless here: reconcile.py compares annotations of *other* modules
    binds = _bindings(cli, src_root, tree)

    assigns = [n for n in tree.body if isinstance(n, ast.Assign)
               and any(isinstance(t, ast.Name) and t.id == "algorithms" for t in n.targets)]
    if len(assigns) != 1:
        raise TranslatorAbort(f"{cli}:0: expected exactly one module-level assignment to 'algorithms', found {len(assigns)}")
    assign = assigns[0]
    if len(assign.targets) != 1 or not isinstance(assign.targets[0], ast.Name):
        _abort(cli, assign, "'algorithms' must be assigned alone")
    if not isinstance(assign.value, ast.Dict):
        _abort(cli, assign, "'algorithms' is not a dict literal")
    _check_algorithms_untouched(cli, tree, assign)

    # the names call_algorithm compares annotations with must be the model classes
    for cls in ("ReconciliationInput", "SuperReconciliationInput"):
        _imported_as(cli, binds, cls, assign, MODEL_MODULE, cls)
    _imported_as(cli, binds, POLICY_CLASS, assign, POLICY_MODULE, POLICY_CLASS)

    rows: List[Tuple[str, str, bool, str]] = []
    seen = set()
    cache: Dict[str, Tuple[Path, ast.Module, dict]] = {}
    for k, v in zip(assign.value.keys, assign.value.values):
        if k is None:
            _abort(cli, assign.value, "dict unpacking (**) in 'algorithms'")
        if not isinstance(k, ast.Constant) or not isinstance(k.value, str):
            _abort(cli, k, "key of 'algorithms' is not a string literal")
        key = k.value
        if not key or not all(32 <= ord(c) < 127 and c != '"' for c in key):
            _abort(cli, k, f"key {key!r} is outside printable ASCII")
        if key in seen:
            _abort(cli, k, f"duplicate key {key!r}")
        seen.add(key)
        if not isinstance(v, ast.Name):
            _abort(cli, v, f"value of key {key!r} is not a plain name")
        b = binds.get(v.id, [])
        if len(b) != 1 or b[0][0] != "import":
            _abort(cli, v, f"{v.id!r} is not bound by exactly one 'from ... import'")
        mod, orig, imp = b[0][1]
        if imp not in tree.body:
            _abort(cli, imp, f"import of {v.id!r} is not at module level")
        if not mod.startswith("superrec2.compute."):
            _abort(cli, imp, f"{v.id!r} is imported from {mod}, expected a superrec2.compute module")
        if mod not in cache:
            mpath = src_root.joinpath(*mod.split(".")).with_suffix(".py")
            mtree = _parse(mpath)
            fut = _future_annotations(mtree)
            if fut is not None:
                _abort(mpath, fut, "'from __future__ import annotations' turns the annotations into strings")
            cache[mod] = (mpath, mtree, _bindings(mpath, src_root, mtree))
        mpath, mtree, mbinds = cache[mod]
        fb = mbinds.get(orig, [])
        if len(fb) != 1 or fb[0][0] != "def" or not isinstance(fb[0][1], ast.FunctionDef) or fb[0][1] not in mtree.body:
            where = fb[0][1] if fb and hasattr(fb[0][1], "lineno") else mtree
            _abort(mpath, where, f"{orig!r} is not defined exactly once as a top-level 'def'")
        cls, pol = _signature(mpath, mbinds, fb[0][1])
        rows.append((key, cls, pol, f"{mod}.{orig}"))
    if not rows:
        _abort(cli, assign, "'algorithms' is empty")
    return rows


def render(rows: List[Tuple[str, str, bool, str]]) -> str:
    lines = [
        "(** GENERATED by translator/cli_table.py from src/superrec2/cli/reconcile.py and the",
        "    superrec2.compute modules it imports the algorithms from.  Do not edit: the file is",
        "    regenerated (and the theorems over it re-checked) on every run of ./check C12.",
        "",
        "    One row per key of the [algorithms] dict, in source order: the class the first",
        "    parameter of the function is annotated with, and whether the function takes a",
        "    second parameter annotated [RetentionPolicy]. *)",
        "From Coq Require Import List String.",
        "Import ListNotations.",
        "Local Open Scope string_scope.",
        "",
        "Inductive input_class : Set := ReconciliationInput | SuperReconciliationInput.",
        "",
        "Definition cli_table : list (string * (input_class * bool)) := [",
    ]
    body = []
    for key, cls, pol, fn in rows:
        body.append(f'  ("{key}", ({cls}, {"true" if pol else "false"}))  (* {fn} *)')
    lines.append(";\n".join(body))
    lines.append("].")
    return "\n".join(lines) + "\n"


def regenerate(repo: Optional[Path] = None, out: Path = OUT) -> bool:
    """Translate and (re)write `out` if its content changed.  Returns True when written."""
    repo = Path(repo if repo is not None else os.environ.get("VERIF_REPO", "/repo"))
    text = render(extract(repo))
    if out.exists() and out.read_text() == text:
        return False
    out.parent.mkdir(parents=True, exist_ok=True)
    tmp = out.with_suffix(".v.tmp")
    tmp.write_text(text)
    tmp.replace(out)
    return True


if __name__ == "__main__":
    try:
        changed = regenerate(Path(sys.argv[1]) if len(sys.argv) > 1 else None)
    except TranslatorAbort as e:
        print("TranslatorAbort:", e, file=sys.stderr)
        sys.exit(2)
    print("written" if changed else "unchanged", OUT)
