"""Fail-closed translator from a small imperative Python subset to Gallina (state passing).

Handled (everything else raises `TranslatorAbort` with file:line):

* a module-level, undecorated `def` with plain positional parameters, ending in `return e`;
* statements: `x = e`, `x op= e` (`|= &= += -= <<= >>=`), `xs.append(e)`, `if/elif/else`,
  `for x in range(e)`, `for i, v in enumerate(xs)`, `while e`, `break`, `return e`, `pass`;
* expressions: int/bool literals, `-literal`, names, `<< >> & | + -`, one comparison
  `== != < <= > >=`, `not/and/or`, `len(xs)`, `e.bit_length()`, `xs[i]`, truthiness of ints.

Every variable has a type declared by the caller (`FunSpec.types`): `N` (int known to be
>= 0), `Z` (int), `bool`, `elem` (sequence element, compared with the section's `eqb`),
`list` (sequence of elements).  Nothing is guessed: an undeclared name aborts, `-` is only
done in `Z`, a `Z` value never flows into an `N` variable, shift counts and indexes are `N`.

Shape of the output.  Python variables keep their names; an assignment is a shadowing `let`.
The statements after an `if` become a local continuation `k'n` over the variables the
branches assign.  Each loop becomes its own `Fixpoint` returning
`flow S R = Next s | Ret r | Fail e` (`s` = the variables assigned in the body, `Ret` = a
`return` inside the loop, `Fail` = IndexError / OutOfFuel); the body calls the Fixpoint in tail
position, `break` is `Next s`.  `for` recurses on the iterated list / on a `nat` count fixed at
loop entry, `while` on explicit fuel (term supplied by the caller; `Fail OutOfFuel` when it runs
out while the condition still holds).  `xs[i]` is `nth_error`, `None` -> `IndexError`.  A variable
first assigned inside a branch or loop body is local to it (reading it afterwards aborts).
The function itself returns `res R = Ok r | Err e`.

Extension (translation units, `Unit`): used by the drivers of modules with classes.

* types are written like Coq types over the base types: `list N`, `list (list N)`,
  `option elem`, `list (list (option elem))` (`list` alone still means `list elem`);
* a class is a `Record` of its declared fields (`ClassSpec.fields`); inside a method `self.f`
  is the variable `self'f` (bound from the record at entry, and again by the pattern of every
  call `self.m(..)`); a method returns `res (state * R)`, `__init__` returns `res state`.
  A list field may only be rebound in `__init__` (elsewhere lists are updated in place, which the
  state passing mirrors because no two variables ever share a list: a list variable is only
  ever assigned a freshly built list);
* `self.m(args)` is translated only where the evaluation order is unambiguous: as the whole
  right-hand side of an assignment, as the returned value, or as the index in
  `xs[self.m(..)].append(e)`.  A method calling itself becomes a `Fixpoint` on explicit fuel
  (`FunSpec.rec_fuel`, a Coq term over the parameters; `Err OutOfFuel` at 0);
* `f(args)` for a function translated earlier in the same unit (pure: it cannot mutate);
* `xs[i]` with `i` of type `Z` follows Python (a negative index counts from the end: `zget`);
  nested reads `t[i][j]`; stores `xs[i] = e`, `t[i][j] = e`, `xs[i] op= e`, `t[i].append(e)`
  are functional updates (`nset` / `zset`), `IndexError` when out of range;
* fresh lists: `[]`, `[e] * n` (immutable `e` only), `[e for _ in range(n)]` (`e` not using the
  loop variable), `list(range(n))`, `list(xs)` (copy), `[x for x in xs if c]`;
* `b ** e` with a non-negative base: `N.pow` / `Z.pow`; an exponent of type `Z` is guarded
  (`NegativePower` when negative -- Python would produce a float, which is not modelled);
* `min(a, b)` on elements: `py_min a b = if ltb b a then b else a` (Python returns the first
  argument unless the second is smaller), `TypeError` when an argument is a `None` cell;
* `assert x is not None` on a variable of option type: `AssertionError` when violated (the
  translation is of the program run without `-O`), the variable has the underlying type afterwards;
* `None` and values of type `T` where `option T` is expected (`Some`), `range(a, b)`, `range(e)`
  with `e : Z` (empty when negative), `e.bit_length()` on `Z` (of the absolute value).
"""
from __future__ import annotations

import ast
import copy
from dataclasses import dataclass, field, replace
from pathlib import Path
from typing import Callable, Dict, List, Optional

try:
    from harness.core import TranslatorAbort
except ImportError:  # stand-alone use
    class TranslatorAbort(RuntimeError):
        pass

PRELUDE = """\
Inductive err : Set := IndexError | OutOfFuel.
Inductive res (R : Type) : Type := Ok (r : R) | Err (e : err).
Inductive flow (S R : Type) : Type := Next (s : S) | Ret (r : R) | Fail (e : err).
Arguments Ok {R} r.  Arguments Err {R} e.
Arguments Next {S R} s.  Arguments Ret {S R} r.  Arguments Fail {S R} e.
"""
EXTRA_ERRORS = ("AssertionError", "TypeError", "NegativePower")
HELPERS = {
    "list_set": """\
(* xs[i] = v at a position counted from the front; None = IndexError *)
Fixpoint list_set {X : Type} (l : list X) (i : nat) (v : X) {struct l} : option (list X) :=
  match l, i with
  | nil, _ => None
  | cons _ l', O => Some (cons v l')
  | cons x l', S i' => match list_set l' i' v with Some r => Some (cons x r) | None => None end
  end.""",
    "nset": """\
Definition nset {X : Type} (l : list X) (i : N) (v : X) : option (list X) := list_set l (N.to_nat i) v.""",
    "zpos": """\
(* the position Python's xs[i] designates: a negative index counts from the end *)
Definition zpos {X : Type} (l : list X) (i : Z) : option nat :=
  if Z.leb 0%Z i then Some (Z.to_nat i)
  else if Z.leb 0%Z (Z.add (Z.of_nat (length l)) i) then Some (Z.to_nat (Z.add (Z.of_nat (length l)) i))
  else None.""",
    "zget": """\
Definition zget {X : Type} (l : list X) (i : Z) : option X :=
  match zpos l i with Some p => nth_error l p | None => None end.""",
    "zset": """\
Definition zset {X : Type} (l : list X) (i : Z) (v : X) : option (list X) :=
  match zpos l i with Some p => list_set l p v | None => None end.""",
    "is_empty": """\
Definition is_empty {X : Type} (l : list X) : bool := match l with nil => true | cons _ _ => false end.""",
}
HELPER_DEPS = {"nset": ["list_set"], "zget": ["zpos"], "zset": ["zpos", "list_set"]}
PY_MIN = "Definition py_min (a b : A) : A := if ltb b a then b else a."

BASE_TYPES = {"N": "N", "Z": "Z", "bool": "bool", "elem": "A"}
COQ_TYPE = {"N": "N", "Z": "Z", "bool": "bool", "elem": "A", "list": "list A"}
RESERVED = set("""A N Z S O nat bool list unit tt true false nil cons app length nth_error negb andb orb eqb
    Next Ret Fail Ok Err IndexError OutOfFuel res flow err Some None fun let in match with end if then else fix cofix
    forall exists Type Prop Set struct as at return using where mod IF _
    ltb option map seq repeat filter fst snd pair prod list_set nset zpos zget zset is_empty py_min self
    AssertionError TypeError NegativePower left right inl inr conj exist existT eq_refl Lt Eq Gt I""".split())
BINOPS = {ast.Add: "add", ast.Sub: "sub", ast.BitAnd: "land", ast.BitOr: "lor",
          ast.LShift: "shiftl", ast.RShift: "shiftr"}
CMPOPS = {ast.Eq: ("eqb", False, False), ast.NotEq: ("eqb", False, True), ast.Lt: ("ltb", False, False),
          ast.LtE: ("leb", False, False), ast.Gt: ("ltb", True, False), ast.GtE: ("leb", True, False)}  # (fn, swap, negate)
IMMUTABLE = ("N", "Z", "bool", "elem", "option N", "option Z", "option bool", "option elem")
FORBIDDEN_METHODS = ("__getattr__", "__getattribute__", "__setattr__", "__delattr__", "__slots__")


# -------------------------------------------------------------------- types
def norm_type(t: str) -> str:
    """Canonical spelling of a declared type; raises ValueError when it is not one."""
    toks = t.replace("(", " ( ").replace(")", " ) ").split()

    def parse(i):
        if i >= len(toks):
            raise ValueError(t)
        if toks[i] == "(":
            r, i = parse(i + 1)
            if i >= len(toks) or toks[i] != ")":
                raise ValueError(t)
            return r, i + 1
        if toks[i] in BASE_TYPES:
            return toks[i], i + 1
        if toks[i] in ("list", "option"):
            if i + 1 >= len(toks) or toks[i + 1] == ")":
                if toks[i] == "list":
                    return "list", i + 1
                raise ValueError(t)
            arg, j = parse(i + 1)
            if toks[i] == "list" and arg == "elem":
                return "list", j
            return f"{toks[i]} {arg if ' ' not in arg else '(' + arg + ')'}", j
        raise ValueError(t)

    r, i = parse(0)
    if i != len(toks):
        raise ValueError(t)
    return r


def is_list(t: str) -> bool:
    return t == "list" or t.startswith("list ")


def is_option(t: str) -> bool:
    return t.startswith("option ")


def arg_of(t: str) -> str:
    """Element type of a list type / underlying type of an option type."""
    if t == "list":
        return "elem"
    a = t.split(" ", 1)[1]
    return a[1:-1] if a.startswith("(") else a


def coq_type(t: str) -> str:
    if t in COQ_TYPE:
        return COQ_TYPE[t]
    a = coq_type(arg_of(t))
    return f"{t.split(' ', 1)[0]} {a if ' ' not in a else '(' + a + ')'}"


@dataclass
class FunSpec:
    name: str
    types: Dict[str, str]                 # every parameter, local and loop variable -> declared type
    ret: str                              # type of the returned value ("" : nothing is returned, __init__)
    fuel: Dict[int, str] = field(default_factory=dict)  # n-th loop of the function (from 1) -> Coq `nat` term
    alias: Optional[str] = None           # name of the generated definition (default: the Python name)
    rec_fuel: Optional[str] = None        # fuel (Coq `nat` term over the parameters) of a self-recursive method


@dataclass
class ClassSpec:
    name: str                             # Python class name
    short: str                            # Record `<short>_state`, constructor `mk_<short>`, projections `<short>_<field>`
    fields: Dict[str, str]                # attribute -> declared type, in the order of the Record
    methods: List[FunSpec] = field(default_factory=list)   # in translation order (callees first)


@dataclass
class _Ctx:
    ret: Callable[[str], str]             # what `return e` becomes
    fail: Callable[[str], str]            # what an error becomes
    fall: Optional[str]                   # what reaching the end of the block becomes
    brk: Optional[str] = None             # what `break` becomes
    retp: Optional[Callable[[str], str]] = None   # what an inner loop's `Ret r'` becomes (default: ret)


def _ind(lines: List[str]) -> List[str]:
    return ["  " + l for l in lines]


def _names(nodes) -> set:
    return {n.id for s in nodes for n in ast.walk(s) if isinstance(n, ast.Name)}


def _is_self_call(n) -> bool:
    return isinstance(n, ast.Call) and isinstance(n.func, ast.Attribute) and isinstance(n.func.value, ast.Name) \
        and n.func.value.id == "self"


def _base_name(n):
    while isinstance(n, ast.Subscript):
        n = n.value
    return n.id if isinstance(n, ast.Name) else None


class _Fun:
    def __init__(self, path: Path, fn: ast.FunctionDef, spec: FunSpec, prefix: str, unit: "Unit" = None,
                 cls: ClassSpec = None):
        self.path, self.fn, self.spec, self.prefix = path, fn, spec, prefix
        self.unit, self.cls = unit, cls
        self.fixpoints: List[str] = []
        self.nloop = self.nk = self.nt = 0
        self.fieldvars: List[str] = []
        self.callpos: set = set()
        self.in_rec = False
        if cls is not None:
            self.spec = replace(spec, types=dict(spec.types))
            for f, t in cls.fields.items():
                self.spec.types["self'" + f] = t
                self.fieldvars.append("self'" + f)
        self.R = coq_type(spec.ret) if spec.ret else None
        if unit is not None:
            self.rename_reserved()

    def rename_reserved(self):
        """A Python variable whose name the generated text uses (`length`, `map`, ..) gets a `_` appended."""
        names = {n.id for n in ast.walk(self.fn) if isinstance(n, ast.Name)} | {a.arg for a in ast.walk(self.fn)
                                                                                 if isinstance(a, ast.arg)}
        ren = {n: n + "_" for n in names if n in RESERVED and n != "self" and n in self.spec.types}
        for old, new in ren.items():
            if new in names or new in self.spec.types or new in RESERVED:
                self.abort(self.fn, f"cannot rename the variable {old!r}: {new!r} is in use too")
        if not ren:
            return
        self.spec = replace(self.spec, types={ren.get(k, k): v for k, v in self.spec.types.items()})
        for n in ast.walk(self.fn):
            if isinstance(n, ast.Name) and n.id in ren:
                n.id = ren[n.id]
            elif isinstance(n, ast.arg) and n.arg in ren:
                n.arg = ren[n.arg]

    def abort(self, node, msg: str):
        raise TranslatorAbort(f"{self.path}:{getattr(node, 'lineno', 0)}: in {self.fn.name}: {msg}")

    def need(self, *names: str):
        if self.unit is None:
            self.abort(self.fn, f"construct needing {names[0]!r} outside a translation unit")
        for n in names:
            (self.unit.errors if n in EXTRA_ERRORS else self.unit.helpers).add(n)

    def ty(self, node, name: str) -> str:
        if name in self.fieldvars:
            return self.spec.types[name]
        if name in RESERVED or "'" in name or not name.isascii():
            self.abort(node, f"the name {name!r} collides with a name used by the generated Coq text")
        if name not in self.spec.types:
            self.abort(node, f"no declared type for variable {name!r}")
        return self.spec.types[name]

    def vtype(self, node, name: str, env) -> str:
        t = self.ty(node, name)
        return arg_of(t) if name + "!" in env else t

    def binder(self, node, name: str) -> str:
        return f"({name} : {coq_type(self.ty(node, name))})"

    def assigned(self, stmts) -> set:
        out = set()
        for s in stmts:
            for n in ast.walk(s):
                if isinstance(n, ast.Name) and isinstance(n.ctx, ast.Store):
                    out.add(n.id)
                elif isinstance(n, ast.Subscript) and isinstance(n.ctx, ast.Store) and _base_name(n):
                    out.add(_base_name(n))
                elif isinstance(n, ast.Call) and isinstance(n.func, ast.Attribute) and n.func.attr == "append" \
                        and _base_name(n.func.value):
                    out.add(_base_name(n.func.value))
                elif _is_self_call(n):
                    out.update(self.fieldvars)
        return out

    def used(self, nodes) -> set:
        out = _names(nodes)
        if any(_is_self_call(n) for s in nodes for n in ast.walk(s)):
            out.update(self.fieldvars)
        return out

    # state of the object, as a term and as a pattern (the same text)
    def state(self, node) -> str:
        return f"(mk_{self.cls.short} {' '.join(self.fieldvars)})"

    # ---------------------------------------------------------------- expressions
    def join(self, node, a: str, b: str) -> str:
        if a not in ("N", "Z", "lit") or b not in ("N", "Z", "lit"):
            self.abort(node, f"integer operator applied to operands of type {a} and {b}")
        return "Z" if "Z" in (a, b) else "N" if "N" in (a, b) else "lit"

    def comp_kind(self, e):
        """Classify a list comprehension: ('repeat', elt, count) | ('filter', var, seq, cond) | None."""
        if not isinstance(e, ast.ListComp) or len(e.generators) != 1:
            return None
        g = e.generators[0]
        if g.is_async or not isinstance(g.target, ast.Name):
            return None
        it = g.iter
        if not g.ifs and isinstance(it, ast.Call) and isinstance(it.func, ast.Name) and it.func.id == "range" \
                and len(it.args) == 1 and not it.keywords and g.target.id not in _names([e.elt]):
            return ("repeat", e.elt, it.args[0])
        if len(g.ifs) == 1 and isinstance(it, ast.Name) and isinstance(e.elt, ast.Name) and e.elt.id == g.target.id:
            return ("filter", g.target.id, it, g.ifs[0])
        return None

    def is_fresh(self, e) -> bool:
        """Does `e` build a new list object (so that assigning it creates no alias)?"""
        if isinstance(e, ast.List) and not e.elts:
            return True
        if isinstance(e, ast.BinOp) and isinstance(e.op, ast.Mult) and isinstance(e.left, ast.List) and len(e.left.elts) == 1:
            return True
        if isinstance(e, ast.Call) and isinstance(e.func, ast.Name) and e.func.id == "list" and len(e.args) == 1 \
                and not e.keywords:
            return True
        return self.comp_kind(e) is not None

    def ntype(self, e, env) -> str:
        """Natural type of an expression: a declared type, lit (int literal: adapts), none (the
        constant None: any option type) or newlist (a list display: any list type)."""
        if isinstance(e, ast.Constant):
            if isinstance(e.value, bool):
                return "bool"
            if isinstance(e.value, int):
                return "lit"
            if e.value is None:
                return "none"
        elif isinstance(e, ast.Name) and isinstance(e.ctx, ast.Load):
            t = self.vtype(e, e.id, env)
            if e.id not in env:
                self.abort(e, f"variable {e.id!r} is not definitely assigned here (or is a loop variable read after its loop)")
            return t
        elif isinstance(e, ast.UnaryOp) and isinstance(e.op, ast.Not):
            return "bool"
        elif isinstance(e, ast.UnaryOp) and isinstance(e.op, ast.USub) and isinstance(e.operand, ast.Constant) \
                and type(e.operand.value) is int:
            return "Z"
        elif isinstance(e, ast.BinOp) and type(e.op) in BINOPS:
            if isinstance(e.op, (ast.LShift, ast.RShift)):
                return self.join(e, self.ntype(e.left, env), "lit")
            t = self.join(e, self.ntype(e.left, env), self.ntype(e.right, env))
            return "Z" if isinstance(e.op, ast.Sub) else t
        elif isinstance(e, ast.BinOp) and isinstance(e.op, ast.Pow):
            self.join(e, self.ntype(e.right, env), "lit")
            return "Z" if self.join(e, self.ntype(e.left, env), "lit") == "Z" else "N"
        elif isinstance(e, ast.BinOp) and isinstance(e.op, ast.Mult) and self.is_fresh(e):
            return "newlist"
        elif isinstance(e, (ast.Compare, ast.BoolOp)):
            return "bool"
        elif isinstance(e, ast.Call):
            return self.call_type(e, env)
        elif isinstance(e, ast.Subscript):
            bt = self.ntype(e.value, env)
            if not is_list(bt):
                self.abort(e, f"indexing a value of type {bt}")
            return arg_of(bt)
        elif isinstance(e, ast.List) and not e.elts:
            return "list" if self.unit is None else "newlist"
        elif isinstance(e, ast.ListComp):
            k = self.comp_kind(e)
            if k and k[0] == "repeat":
                return "newlist"
            if k and k[0] == "filter":
                return self.ntype(k[2], env)
        self.abort(e, f"expression outside the handled subset: {ast.dump(e)[:80]}")

    def call_type(self, e, env) -> str:
        f = e.func
        if e.keywords:
            self.abort(e, "call with keyword arguments")
        if isinstance(f, ast.Name) and f.id == "len" or isinstance(f, ast.Attribute) and f.attr == "bit_length":
            return "N"
        if isinstance(f, ast.Name) and f.id == "min" and len(e.args) == 2:
            return "elem"
        if isinstance(f, ast.Name) and f.id == "list" and len(e.args) == 1:
            a = e.args[0]
            if isinstance(a, ast.Call) and isinstance(a.func, ast.Name) and a.func.id == "range":
                return "list N"
            return self.ntype(a, env)
        if isinstance(f, ast.Name) and self.unit is not None and f.id in self.unit.functions:
            return self.unit.functions[f.id].ret
        if _is_self_call(e) and self.cls is not None:
            for m in self.cls.methods:
                if m.name == f.attr and m.ret:
                    return m.ret
        return "N"          # rejected by raw()

    def expr(self, e, want: str, env, hoist) -> str:
        """Coq term of type `want` for `e`; index expressions are appended to `hoist`."""
        t = self.ntype(e, env)
        if want == "bool" and t in ("N", "Z", "lit"):        # truthiness of an int
            t = "Z" if t == "lit" else t
            return f"(negb ({t}.eqb {self.raw(e, t, env, hoist)} 0%{t}))"
        if want == "bool" and is_list(t):                     # truthiness of a list
            self.need("is_empty")
            return f"(negb (is_empty {self.raw(e, t, env, hoist)}))"
        if t == "none":
            if not is_option(want):
                self.abort(e, f"None where a value of type {want} is expected")
            return "None"
        if t == "newlist":
            if not is_list(want):
                self.abort(e, f"list display where a value of type {want} is expected")
            return self.raw(e, want, env, hoist)
        if is_option(want) and not is_option(t):
            return f"(Some {self.expr(e, arg_of(want), env, hoist)})"
        if is_list(want) and is_list(t) and t != want and is_option(arg_of(want)) and arg_of(arg_of(want)) == arg_of(t):
            return f"(map Some {self.raw(e, t, env, hoist)})"
        if t == "lit":
            if want not in ("N", "Z"):
                self.abort(e, f"integer literal where a value of type {want} is expected")
            t = want
        if t == "N" and want == "Z":
            return f"(Z.of_N {self.raw(e, 'N', env, hoist)})"
        if t != want:
            self.abort(e, f"expression of type {t} where type {want} is expected")
        return self.raw(e, t, env, hoist)

    def raw(self, e, t: str, env, hoist) -> str:
        if isinstance(e, ast.Constant):
            if t == "bool":
                return "true" if e.value else "false"
            if e.value is None or e.value < 0 or t not in ("N", "Z"):
                self.abort(e, "literal outside the handled subset")
            return f"{e.value}%{t}"
        if isinstance(e, ast.Name):
            return e.id
        if isinstance(e, ast.UnaryOp) and isinstance(e.op, ast.USub):
            return f"(-{e.operand.value})%Z"
        if isinstance(e, ast.UnaryOp):
            return f"(negb {self.expr(e.operand, 'bool', env, hoist)})"
        if isinstance(e, ast.BinOp) and isinstance(e.op, ast.Pow):
            base = self.expr(e.left, t, env, hoist)
            et = self.ntype(e.right, env)
            if et in ("N", "lit"):
                ex = self.expr(e.right, "N", env, hoist)
                return f"({t}.pow {base} {ex if t == 'N' else '(Z.of_N ' + ex + ')'})"
            ex = self.expr(e.right, "Z", env, hoist)
            self.need("NegativePower")
            hoist.append(("guard", f"(Z.ltb {ex} 0%Z)", "NegativePower"))
            return f"({t}.pow {base} {'(Z.to_N ' + ex + ')' if t == 'N' else ex})"
        if isinstance(e, ast.BinOp) and isinstance(e.op, ast.Mult):
            et = arg_of(t)
            if et not in IMMUTABLE:
                self.abort(e, f"[e] * n with e of the mutable type {et} (the n cells would share one object)")
            elt = self.expr(e.left.elts[0], et, env, hoist)
            return f"(repeat {elt} {self.count(e.right, env, hoist)})"
        if isinstance(e, ast.BinOp):
            op = BINOPS[type(e.op)]
            if op == "sub" and t != "Z":
                self.abort(e, "subtraction is only translated in Z (an N result could be negative in Python)")
            if op in ("shiftl", "shiftr"):
                cnt = self.expr(e.right, "N", env, hoist)
                return f"({t}.{op} {self.expr(e.left, t, env, hoist)} {cnt if t == 'N' else '(Z.of_N ' + cnt + ')'})"
            return f"({t}.{op} {self.expr(e.left, t, env, hoist)} {self.expr(e.right, t, env, hoist)})"
        if isinstance(e, ast.Compare):
            if len(e.ops) != 1 or type(e.ops[0]) not in CMPOPS:
                self.abort(e, "only a single comparison == != < <= > >= is handled")
            fn, swap, neg = CMPOPS[type(e.ops[0])]
            lt, rt = self.ntype(e.left, env), self.ntype(e.comparators[0], env)
            if lt == rt == "elem" and fn == "eqb":
                a, b, f = self.expr(e.left, "elem", env, hoist), self.expr(e.comparators[0], "elem", env, hoist), "eqb"
            else:
                ct = self.join(e, lt, rt)
                ct = "Z" if ct == "lit" else ct
                a, b, f = self.expr(e.left, ct, env, hoist), self.expr(e.comparators[0], ct, env, hoist), f"{ct}.{fn}"
            a, b = (b, a) if swap else (a, b)
            return f"(negb ({f} {a} {b}))" if neg else f"({f} {a} {b})"
        if isinstance(e, ast.BoolOp):
            parts = []
            for i, v in enumerate(e.values):
                sub: list = []
                parts.append(self.expr(v, "bool", env, sub))
                if sub and i > 0:
                    self.abort(v, "indexing in a short-circuited operand of and/or")
                hoist.extend(sub)
            f = "andb" if isinstance(e.op, ast.And) else "orb"
            out = parts[-1]
            for p in reversed(parts[:-1]):
                out = f"({f} {p} {out})"
            return out
        if isinstance(e, ast.Call) and not e.keywords:
            return self.call(e, t, env, hoist)
        if isinstance(e, ast.Subscript):
            if isinstance(e.slice, ast.Slice):
                self.abort(e, "only xs[i] with xs a declared sequence variable is handled")
            if isinstance(e.value, ast.Name):
                if not is_list(self.ntype(e.value, env)):
                    self.abort(e, "only xs[i] with xs a declared sequence variable is handled")
                seq = e.value.id
            elif isinstance(e.value, ast.Subscript) and self.unit is not None:
                seq = self.raw(e.value, self.ntype(e.value, env), env, hoist)
            else:
                self.abort(e, "only xs[i] with xs a declared sequence variable is handled")
            return self.index(e, seq, e.slice, env, hoist)
        if isinstance(e, ast.List):
            return "(@nil A)" if t == "list" else f"(@nil ({coq_type(arg_of(t))}))"
        if isinstance(e, ast.ListComp):
            k = self.comp_kind(e)
            if k[0] == "repeat":
                sub: list = []
                elt = self.expr(k[1], arg_of(t), env, sub)
                if sub:
                    self.abort(e, "comprehension element that can raise")
                return f"(repeat {elt} {self.count(k[2], env, hoist)})"
            var, seq, cond = k[1], k[2], k[3]
            if self.ty(e, var) != arg_of(t) or var in env:
                self.abort(e, f"comprehension variable {var!r} must be declared {arg_of(t)} and used nowhere else")
            sub = []
            c = self.expr(cond, "bool", env + [var], sub)
            if sub:
                self.abort(e, "comprehension condition that can raise")
            return f"(filter (fun {self.binder(e, var)} => {c}) {seq.id})"
        self.abort(e, "expression outside the handled subset")

    def count(self, e, env, hoist) -> str:
        """`nat` term for the length `n` of `range(n)` / `[x] * n` (empty when negative)."""
        ct = self.ntype(e, env)
        if ct in ("N", "lit"):
            return f"(N.to_nat {self.expr(e, 'N', env, hoist)})"
        if ct == "Z" and self.unit is not None:
            return f"(Z.to_nat {self.expr(e, 'Z', env, hoist)})"
        self.abort(e, "range(e) is only translated for e of declared type N")

    def index(self, e, seq: str, sl, env, hoist) -> str:
        """Hoist the read `seq[sl]`; returns the temporary holding the value."""
        it = self.ntype(sl, env)
        if it == "Z" and self.unit is not None:
            idx = self.expr(sl, "Z", env, hoist)
            self.need("zget")
            self.nt += 1
            hoist.append(("zidx", f"t'{self.nt}", seq, idx))
            return f"t'{self.nt}"
        if it not in ("N", "lit"):
            self.abort(e, "index must be of declared type N (a negative index counts from the end in Python)")
        if self.unit is None:
            self.nt += 1
            hoist.append(("idx", f"t'{self.nt}", seq, self.expr(sl, "N", env, [])))
            if any(isinstance(n, ast.Subscript) for n in ast.walk(sl)):
                self.abort(e, "nested indexing")
            return f"t'{self.nt}"
        idx = self.expr(sl, "N", env, hoist)
        self.nt += 1
        hoist.append(("idx", f"t'{self.nt}", seq, idx))
        return f"t'{self.nt}"

    def call(self, e, t: str, env, hoist) -> str:
        f = e.func
        if isinstance(f, ast.Name) and f.id == "len" and len(e.args) == 1 \
                and isinstance(e.args[0], ast.Name) and is_list(self.ntype(e.args[0], env)):
            return f"(N.of_nat (length {e.args[0].id}))"
        if isinstance(f, ast.Attribute) and f.attr == "bit_length" and not e.args:
            vt = self.ntype(f.value, env)
            if vt == "Z" and self.unit is not None:
                return f"(N.size (Z.abs_N {self.raw(f.value, 'Z', env, hoist)}))"
            if vt != "N":
                self.abort(e, "bit_length() is only translated for values declared N")
            return f"(N.size {self.raw(f.value, 'N', env, hoist)})"
        if self.unit is None:
            self.abort(e, "call outside the handled subset (len(xs), e.bit_length())")
        if isinstance(f, ast.Name) and f.id == "min" and len(e.args) == 2:
            if not self.unit.elem_lt:
                self.abort(e, "min() needs the unit's element order")
            terms, pending = [], []
            for a in e.args:
                at = self.ntype(a, env)
                if at == "elem":
                    terms.append(self.expr(a, "elem", env, hoist))
                elif at == "option elem":
                    inner = self.raw(a, at, env, hoist)
                    self.nt += 1
                    pending.append(("unwrap", f"t'{self.nt}", inner, "TypeError"))
                    terms.append(f"t'{self.nt}")
                else:
                    self.abort(a, f"min() of a value of type {at}")
            if pending:
                self.need("TypeError")
            hoist.extend(pending)               # the comparison happens after both arguments are evaluated
            self.need("py_min")
            return f"(py_min {terms[0]} {terms[1]})"
        if isinstance(f, ast.Name) and f.id == "list" and len(e.args) == 1:
            a = e.args[0]
            if isinstance(a, ast.Call) and isinstance(a.func, ast.Name) and a.func.id == "range":
                if len(a.args) != 1 or a.keywords:
                    self.abort(e, "list(range(..)) with more than one argument")
                return f"(map N.of_nat (seq 0 {self.count(a.args[0], env, hoist)}))"
            if not isinstance(a, ast.Name) or not is_list(self.ntype(a, env)):
                self.abort(e, "list(xs) is only translated for xs a sequence variable")
            return a.id                          # a copy of an immutable value is the value
        if isinstance(f, ast.Name) and f.id in self.unit.functions:
            callee = self.unit.functions[f.id]
            params = self.unit.params[f.id]
            if len(params) != len(e.args):
                self.abort(e, f"{f.id}() called with {len(e.args)} arguments")
            args = [self.expr(a, callee.types[p], env, hoist) for a, p in zip(e.args, params)]
            for a, p in zip(e.args, params):
                if is_list(callee.types[p]) and not isinstance(a, ast.Name):
                    self.abort(e, "list argument that is not a variable")
            self.nt += 1
            hoist.append(("call", f"t'{self.nt}", " ".join([self.prefix + (callee.alias or callee.name)] + args)))
            return f"t'{self.nt}"
        if _is_self_call(e) and self.cls is not None:
            if id(e) not in self.callpos:
                self.abort(e, "self.m(..) is only translated as a whole right-hand side, a returned value, or the "
                              "index of xs[self.m(..)].append(e) (elsewhere the evaluation order would matter)")
            callee = next((m for m in self.cls.methods if m.name == f.attr), None)
            if callee is None or not callee.ret or callee.name == "__init__":
                self.abort(e, f"call of {f.attr!r}, which is not a translated method returning a value")
            done = [m.name for m in self.unit.done_methods.get(self.cls.name, [])]
            rec = callee.name == self.fn.name
            if not rec and callee.name not in done:
                self.abort(e, f"method {f.attr!r} is not translated before its caller")
            if rec and not self.spec.rec_fuel:
                self.abort(e, "recursive method without a declared fuel measure")
            if any(v not in env for v in self.fieldvars):
                self.abort(e, "method call before every attribute is assigned")
            params = self.unit.params[(self.cls.name, callee.name)]
            if len(params) != len(e.args):
                self.abort(e, f"{f.attr}() called with {len(e.args)} arguments")
            args = []
            for a, p in zip(e.args, params):
                if is_list(callee.types[p]):
                    self.abort(e, "list argument to a method")
                if any(_is_self_call(n) for n in ast.walk(a)):
                    self.abort(e, "method call inside the arguments of a method call")
                args.append(self.expr(a, callee.types[p], env, hoist))
            name = self.prefix + (callee.alias or callee.name)
            if rec:
                self.in_rec = True
                name += "_rec fuel''"
            self.nt += 1
            hoist.append(("call", f"({self.state(e)}, t'{self.nt})", " ".join([name, self.state(e)] + args)))
            return f"t'{self.nt}"
        self.abort(e, "call outside the handled subset")

    def hoisted(self, hoist, lines: List[str], ctx: _Ctx) -> List[str]:
        for h in reversed(hoist):
            if h[0] == "idx":
                lines = [f"match nth_error {h[2]} (N.to_nat {h[3]}) with", f"| None => {ctx.fail('IndexError')}",
                         f"| Some {h[1]} =>"] + _ind(lines) + ["end"]
            elif h[0] == "zidx":
                lines = [f"match zget {h[2]} {h[3]} with", f"| None => {ctx.fail('IndexError')}",
                         f"| Some {h[1]} =>"] + _ind(lines) + ["end"]
            elif h[0] == "unwrap":
                lines = [f"match {h[2]} with", f"| None => {ctx.fail(h[3])}", f"| Some {h[1]} =>"] + _ind(lines) + ["end"]
            elif h[0] == "guard":
                lines = [f"if {h[1]} then {ctx.fail(h[2])} else ("] + _ind(lines) + [")"]
            elif h[0] == "call":
                lines = [f"match {h[2]} with", f"| Err e' => " + ctx.fail("e'"), f"| Ok {h[1]} =>"] \
                    + _ind(lines) + ["end"]
        return lines

    # ---------------------------------------------------------------- statements
    def mark_calls(self, s):
        """Positions of statement `s` where a call of a method of `self` may stand."""
        self.callpos = set()
        if isinstance(s, (ast.Assign, ast.AnnAssign, ast.Return)) and s.value is not None:
            self.callpos.add(id(s.value))
        if isinstance(s, ast.Expr) and isinstance(s.value, ast.Call) and isinstance(s.value.func, ast.Attribute) \
                and s.value.func.attr == "append" and isinstance(s.value.func.value, ast.Subscript) \
                and isinstance(s.value.func.value.value, ast.Name):
            self.callpos.add(id(s.value.func.value.slice))

    def updatable(self, node, x: str, env):
        """`x` names a list this function may update in place."""
        if x is None or not is_list(self.ntype(ast.copy_location(ast.Name(id=x, ctx=ast.Load()), node), env)):
            self.abort(node, "update of something that is not a declared sequence variable")
        if x in self.params:
            self.abort(node, "update of a parameter (it would be mutated for the caller)")

    def setter(self, node, sl, env, hoist):
        """(function name, index term) of the update at index expression `sl`."""
        it = self.ntype(sl, env)
        if it == "Z":
            self.need("zset")
            return "zset", self.expr(sl, "Z", env, hoist)
        if it not in ("N", "lit"):
            self.abort(node, "index must be of declared type N or Z")
        self.need("nset")
        return "nset", self.expr(sl, "N", env, hoist)

    def setter_of(self, entry):
        """(function name, index term) of the update at the position read by the hoisted index `entry`."""
        fn = "zset" if entry[0] == "zidx" else "nset"
        self.need(fn)
        return fn, entry[3]

    def store(self, node, target, value_of, env, h, rest, ctx, read_first=False) -> List[str]:
        """`target = value` for a subscript target; `value_of(old)` translates the value (appending to `h`)."""
        x = _base_name(target)
        self.updatable(node, x, env)
        if self.unit is None:
            self.abort(node, "only 'name = expression' assignments are handled")
        chain = []
        n = target
        while isinstance(n, ast.Subscript):
            if isinstance(n.slice, ast.Slice):
                self.abort(node, "slice assignment")
            chain.append(n.slice)
            n = n.value
        chain.reverse()
        if len(chain) > 2 or (read_first and len(chain) != 1):
            self.abort(node, "store outside the handled subset (xs[i] = e, t[i][j] = e, xs[i] op= e)")
        if read_first:                      # xs[i] op= e : the old value is read before e is evaluated
            old = self.index(node, x, chain[0], env, h)
            fn, idx = self.setter_of(h[-1])
            term = value_of(old)
            return self.hoisted(h, [f"match {fn} {x} {idx} {term} with", f"| None => {ctx.fail('IndexError')}",
                                    f"| Some {x} =>"] + _ind(rest()) + ["end"], ctx)
        term = value_of(None)
        if len(chain) == 1:
            fn, idx = self.setter(node, chain[0], env, h)
            return self.hoisted(h, [f"match {fn} {x} {idx} {term} with", f"| None => {ctx.fail('IndexError')}",
                                    f"| Some {x} =>"] + _ind(rest()) + ["end"], ctx)
        row = self.index(node, x, chain[0], env, h)
        fn0, idx0 = self.setter_of(h[-1])
        fn1, idx1 = self.setter(node, chain[1], env, h)
        self.nt += 1
        new = f"t'{self.nt}"
        return self.hoisted(h, [f"match {fn1} {row} {idx1} {term} with", f"| None => {ctx.fail('IndexError')}",
                                f"| Some {new} =>", f"  match {fn0} {x} {idx0} {new} with",
                                f"  | None => {ctx.fail('IndexError')}", f"  | Some {x} =>"] + _ind(_ind(rest()))
                            + ["  end", "end"], ctx)

    def block(self, stmts, env: List[str], ctx: _Ctx) -> List[str]:
        if not stmts:
            if ctx.fall is None:
                self.abort(self.fn, "the function can reach its end without a return")
            if callable(ctx.fall):
                return [ctx.fall(env)]
            return [ctx.fall]
        s, rest = stmts[0], stmts[1:]
        h: list = []
        self.mark_calls(s)
        if isinstance(s, (ast.Return, ast.Break)) and rest:
            self.abort(rest[0], "statement after return/break")
        if isinstance(s, ast.Return):
            if s.value is None or not self.spec.ret:
                self.abort(s, "return without a value")
            return self.hoisted(h, [ctx.ret(self.expr(s.value, self.spec.ret, env, h))], ctx)
        if isinstance(s, ast.Break):
            if ctx.brk is None:
                self.abort(s, "break outside a loop")
            return [ctx.brk]
        if isinstance(s, ast.Pass) or (isinstance(s, ast.Expr) and isinstance(s.value, ast.Constant)
                                       and isinstance(s.value.value, str) and s is self.fn.body[0]):
            return self.block(rest, env, ctx)
        if isinstance(s, ast.Assert):
            t = s.test
            if not (s.msg is None and isinstance(t, ast.Compare) and len(t.ops) == 1 and isinstance(t.ops[0], ast.IsNot)
                    and isinstance(t.left, ast.Name) and isinstance(t.comparators[0], ast.Constant)
                    and t.comparators[0].value is None and self.unit is not None):
                self.abort(s, "assert outside the handled subset (assert x is not None)")
            x = t.left.id
            if not is_option(self.ntype(t.left, env)):
                self.abort(s, f"assert {x} is not None on a variable that is not of an option type (or is already narrowed)")
            self.need("AssertionError")
            return [f"match {x} with", f"| None => {ctx.fail('AssertionError')}", f"| Some {x} =>"] \
                + _ind(self.block(rest, env + [x + "!"], ctx)) + ["end"]
        if isinstance(s, ast.Expr):
            c = s.value
            if not (isinstance(c, ast.Call) and isinstance(c.func, ast.Attribute) and c.func.attr == "append"
                    and isinstance(c.func.value, (ast.Name, ast.Subscript)) and len(c.args) == 1 and not c.keywords):
                self.abort(s, "expression statement outside the handled subset (xs.append(e))")
            if isinstance(c.func.value, ast.Subscript):
                tgt = c.func.value
                if not isinstance(tgt.value, ast.Name) or self.unit is None:
                    self.abort(s, "expression statement outside the handled subset (xs.append(e))")
                x = tgt.value.id
                self.updatable(s, x, env)
                rt = arg_of(self.ntype(tgt.value, env))
                if not is_list(rt):
                    self.abort(s, "append to something that is not a list")
                row = self.index(s, x, tgt.slice, env, h)
                fn, idx = self.setter_of(h[-1])
                val = self.expr(c.args[0], arg_of(rt), env, h)
                return self.hoisted(h, [f"match {fn} {x} {idx} ({row} ++ cons {val} nil) with",
                                        f"| None => {ctx.fail('IndexError')}", f"| Some {x} =>"]
                                    + _ind(self.block(rest, env, ctx)) + ["end"], ctx)
            x = c.func.value.id
            lt = self.ntype(c.func.value, env)
            if not is_list(lt) or x in self.params:
                self.abort(s, "append is only handled on a local sequence variable (a parameter would be mutated for the caller)")
            term = f"({x} ++ cons {self.expr(c.args[0], arg_of(lt), env, h)} nil)"
            return self.hoisted(h, [f"let {x} := {term} in"] + self.block(rest, env, ctx), ctx)
        if isinstance(s, (ast.Assign, ast.AnnAssign)):
            if isinstance(s, ast.AnnAssign):
                if s.value is None or self.unit is None:
                    self.abort(s, "only 'name = expression' assignments are handled")
                target = s.target
            else:
                if len(s.targets) != 1:
                    self.abort(s, "only 'name = expression' assignments are handled")
                target = s.targets[0]
            if isinstance(target, ast.Subscript):
                bt = None
                n = target
                depth = 0
                while isinstance(n, ast.Subscript):
                    n, depth = n.value, depth + 1
                if isinstance(n, ast.Name):
                    bt = self.ntype(ast.copy_location(ast.Name(id=n.id, ctx=ast.Load()), s), env)
                    for _ in range(depth):
                        if not is_list(bt):
                            self.abort(s, "store into something that is not a list")
                        bt = arg_of(bt)
                    if is_list(bt) and not self.is_fresh(s.value):
                        self.abort(s, "a list cell may only be assigned a freshly built list (anything else could alias another list)")
                return self.store(s, target, lambda old: self.expr(s.value, bt, env, h), env, h,
                                  lambda: self.block(rest, env, ctx), ctx)
            if not isinstance(target, ast.Name):
                self.abort(s, "only 'name = expression' assignments are handled")
            x = target.id
            xt = self.ty(s, x)
            if self.unit is None:
                if xt == "list" and not isinstance(s.value, ast.List):
                    self.abort(s, "a sequence variable may only be assigned [] (anything else could alias another list)")
            elif is_list(xt):
                if not self.is_fresh(s.value):
                    self.abort(s, "a sequence variable may only be assigned a freshly built list (anything else could alias another list)")
                if x in self.fieldvars and self.fn.name != "__init__":
                    self.abort(s, "a list attribute may only be rebound in __init__")
            term = self.expr(s.value, xt, env, h)
            env2 = [v for v in env if v != x + "!"]
            return self.hoisted(h, [f"let {x} := {term} in"] + self.block(rest, env2 + [x] * (x not in env2), ctx), ctx)
        if isinstance(s, ast.AugAssign):
            if isinstance(s.target, ast.Subscript) and type(s.op) in BINOPS and isinstance(s.target.value, ast.Name):
                et = arg_of(self.ntype(s.target.value, env))

                def value_of(old):
                    load = ast.copy_location(ast.Name(id="old'", ctx=ast.Load()), s)
                    rt = self.ntype(s.value, env)
                    jt = self.join(s, et, rt)
                    if isinstance(s.op, ast.Sub):
                        jt = "Z"
                    if jt != et or isinstance(s.op, (ast.LShift, ast.RShift)):
                        self.abort(s, f"augmented assignment producing {jt} into a cell of type {et}")
                    return f"({et}.{BINOPS[type(s.op)]} {old} {self.expr(s.value, et, env, h)})"
                return self.store(s, s.target, value_of, env, h, lambda: self.block(rest, env, ctx), ctx, read_first=True)
            if not isinstance(s.target, ast.Name) or type(s.op) not in BINOPS:
                self.abort(s, "augmented assignment outside the handled subset")
            x = s.target.id
            load = ast.copy_location(ast.Name(id=x, ctx=ast.Load()), s)
            term = self.expr(ast.copy_location(ast.BinOp(left=load, op=s.op, right=s.value), s), self.ty(s, x), env, h)
            return self.hoisted(h, [f"let {x} := {term} in"] + self.block(rest, env, ctx), ctx)
        if isinstance(s, ast.If):
            inner, lines = ctx, []
            if rest:
                mod = [v for v in env if v in self.assigned(s.body + s.orelse)]
                if any(v + "!" in env for v in mod):
                    self.abort(s, "a variable narrowed by an assert is assigned in a branch")
                self.nk += 1
                k = f"k'{self.nk}"
                lines = [f"let {k} := fun {' '.join(self.binder(s, v) for v in mod) or '(_ : unit)'} =>"] \
                    + _ind(self.block(rest, env, ctx)) + ["in"]
                inner = replace(ctx, fall=f"{k} {' '.join(mod) or 'tt'}")
                self.mark_calls(s)
            test = self.expr(s.test, "bool", env, h)
            return lines + self.hoisted(h, [f"if {test} then ("] + _ind(self.block(s.body, env, inner)) + [") else ("]
                                        + _ind(self.block(s.orelse, env, inner)) + [")"], ctx)
        if isinstance(s, (ast.For, ast.While)):
            if s.orelse:
                self.abort(s, "loop with an else clause")
            call, state = self.loop(s, env, h)
            pat = "_" if not state else state[0] if len(state) == 1 else "(" + ", ".join(state) + ")"
            return self.hoisted(h, [f"match {call} with", f"| Next {pat} =>"] + _ind(self.block(rest, env, ctx))
                                + ["| Ret r' => " + (ctx.retp or ctx.ret)("r'"), "| Fail e' => " + ctx.fail("e'"), "end"], ctx)
        self.abort(s, f"statement outside the handled subset: {type(s).__name__}")

    def loop(self, s, env: List[str], h: list):
        """Emit the Fixpoint of loop `s`; return (call term at loop entry, state variables)."""
        self.nloop += 1
        n = self.nloop
        targets: List[str] = []
        if isinstance(s, ast.For):
            it = s.iter
            nargs = (1, 2) if self.unit is not None else (1,)
            if not (isinstance(it, ast.Call) and isinstance(it.func, ast.Name) and len(it.args) in nargs and not it.keywords):
                self.abort(s, "for loop outside the handled subset (range(e), enumerate(xs))")
            if it.func.id == "range" and isinstance(s.target, ast.Name):
                kind, targets = "range", [s.target.id] * (s.target.id != "_")
            elif it.func.id == "enumerate" and isinstance(s.target, ast.Tuple) and len(s.target.elts) == 2 \
                    and all(isinstance(x, ast.Name) for x in s.target.elts) and isinstance(it.args[0], ast.Name) \
                    and len(it.args) == 1:
                kind, targets = "enum", [x.id for x in s.target.elts]
            else:
                self.abort(s, "for loop outside the handled subset (range(e), enumerate(xs))")
        else:
            kind = "while"
        mutated = self.assigned(s.body)
        for x in targets:
            if x in env or x in mutated or len(set(targets)) != len(targets):
                self.abort(s, f"loop variable {x!r} is also assigned elsewhere")
        state = [v for v in env if v in mutated]
        used = self.used(s.body + ([s.test] if kind == "while" else []))
        ro = [v for v in env if v not in state and v in used]
        if any(v + "!" in env for v in state + ro):
            self.abort(s, "a variable narrowed by an assert is used in a loop")
        if self.spec.rec_fuel and any(_is_self_call(c) and c.func.attr == self.fn.name
                                      for b in s.body for c in ast.walk(b)):
            self.abort(s, "recursive call inside a loop")
        name = f"{self.prefix}{self.spec.alias or self.fn.name}_{'while' if kind == 'while' else 'for'}{n}"
        tup = "tt" if not state else state[0] if len(state) == 1 else "(" + ", ".join(state) + ")"
        sty = " * ".join(coq_type(self.ty(s, v)) for v in state) or "unit"
        ctx = _Ctx(ret=lambda e: f"Ret {self.pack(e)}", fail=lambda e: f"Fail {e}", fall=None, brk=f"Next {tup}",
                   retp=lambda e: f"Ret {e}")
        args = lambda mid: " ".join([name] + ro + mid + state)
        sig = lambda mid, struct: " ".join(
            [f"Fixpoint {name}"] + [self.binder(s, v) for v in ro] + [mid] + [self.binder(s, v) for v in state]
            + [f"{{struct {struct}}} : flow ({sty}) ({self.RR}) :="])
        inner_env = [v for v in env if v in ro or v in state]
        if kind == "enum":
            seq = it.args[0].id
            if not is_list(self.ntype(it.args[0], env)) or seq in mutated:
                self.abort(s, "enumerate() must iterate a sequence variable the loop does not modify")
            et = arg_of(self.ntype(it.args[0], env))
            if self.ty(s, targets[0]) != "N" or self.ty(s, targets[1]) != et:
                self.abort(s, "enumerate() targets must be declared (N, elem)")
            ctx.fall = args(["it''", "(N.succ idx')"])
            body = self.block(s.body, inner_env + targets, ctx)
            fix = [sig(f"(it' : {coq_type(self.ntype(it.args[0], env))}) (idx' : N)", "it'"), "  match it' with",
                   f"  | nil => Next {tup}",
                   f"  | cons {targets[1]} it'' =>", f"    let {targets[0]} := idx' in"] + _ind(_ind(body)) + ["  end."]
            call = args([seq, "0%N"])
        elif kind == "range" and len(it.args) == 1:
            if self.ntype(it.args[0], env) not in (("N", "lit") if self.unit is None else ("N", "lit", "Z")):
                self.abort(s, "range(e) is only translated for e of declared type N")
            count = self.count(it.args[0], env, h)
            if targets and self.ty(s, targets[0]) != "N":
                self.abort(s, "range() target must be declared N")
            ctx.fall = args(["cnt''"] + ["(N.succ idx')"] * len(targets))
            body = self.block(s.body, inner_env + targets, ctx)
            fix = [sig("(cnt' : nat)" + " (idx' : N)" * len(targets), "cnt'"), "  match cnt' with", f"  | O => Next {tup}",
                   "  | S cnt'' =>"] + [f"    let {x} := idx' in" for x in targets] + _ind(_ind(body)) + ["  end."]
            call = args([count] + ["0%N"] * len(targets))
        elif kind == "range":
            tt = self.ty(s, targets[0]) if targets else "Z"
            st = self.ntype(it.args[0], env)
            if tt not in ("N", "Z") or (tt == "N" and st not in ("N", "lit")):
                self.abort(s, "range(a, b) target must be declared Z, or N when a is of type N")
            self.join(s, st, self.ntype(it.args[1], env))
            hs: list = []
            start, lo = self.expr(it.args[0], tt, env, hs), self.expr(it.args[0], "Z", env, hs)
            if hs:
                self.abort(s, "range(a, b) with a start that can raise")
            hi = self.expr(it.args[1], "Z", env, h)
            ctx.fall = args(["cnt''"] + [f"({tt}.succ idx')"] * len(targets))
            body = self.block(s.body, inner_env + targets, ctx)
            fix = [sig("(cnt' : nat)" + f" (idx' : {tt})" * len(targets), "cnt'"), "  match cnt' with", f"  | O => Next {tup}",
                   "  | S cnt'' =>"] + [f"    let {x} := idx' in" for x in targets] + _ind(_ind(body)) + ["  end."]
            call = args([f"(Z.to_nat (Z.sub {hi} {lo}))"] + [start] * len(targets))
        else:
            if n not in self.spec.fuel:
                self.abort(s, f"while loop number {n} has no declared fuel measure")
            ctx.fall = args(["fuel''"])
            hc: list = []
            test = self.expr(s.test, "bool", inner_env, hc)
            body = self.block(s.body, inner_env, ctx)
            fix = [sig("(fuel' : nat)", "fuel'")] + _ind(self.hoisted(hc, [
                f"if {test} then (", "  match fuel' with", "  | O => Fail OutOfFuel", "  | S fuel'' =>"] + _ind(_ind(body))
                + ["  end", f") else Next {tup}"], ctx))
            fix[-1] += "."
            call = args([f"({self.spec.fuel[n]})"])
        self.fixpoints.append("\n".join(fix))
        return call, state

    def pack(self, e: str) -> str:
        """The value a `return e` hands back: for a method, together with the state of the object."""
        return e if self.cls is None else f"({self.state(self.fn)}, {e})"

    def translate(self) -> str:
        fn, a = self.fn, self.fn.args
        if fn.decorator_list:
            self.abort(fn, "decorated function")
        if a.posonlyargs or a.vararg or a.kwonlyargs or a.kwarg or a.defaults or a.kw_defaults:
            self.abort(fn, "only plain positional parameters without defaults are handled")
        self.params = [x.arg for x in a.args]
        if len(set(self.params)) != len(self.params):
            self.abort(fn, "duplicate parameter")
        self.RR = self.R
        if self.cls is not None:
            return self.translate_method()
        binders = " ".join(self.binder(fn, p) for p in self.params)
        ctx = _Ctx(ret=lambda e: f"Ok {e}", fail=lambda e: f"Err {e}", fall=None)
        body = self.block(fn.body, list(self.params), ctx)
        head = f"(* {fn.name}, line {fn.lineno} *)\n"
        return head + "\n\n".join(self.fixpoints + [
            f"Definition {self.prefix}{self.spec.alias or fn.name} {binders} : res ({self.R}) :=\n" + "\n".join(_ind(body)) + "."])

    def translate_method(self) -> str:
        fn, cls = self.fn, self.cls
        if not self.params or self.params[0] != "self":
            self.abort(fn, "method whose first parameter is not 'self'")
        self.params = self.params[1:]
        st = f"{cls.short}_state"
        init = fn.name == "__init__"
        if init != (not self.spec.ret):
            self.abort(fn, "exactly __init__ returns nothing")
        fn.body = [_SelfRewriter(self, cls).visit(s) for s in fn.body]
        for n in ast.walk(fn):
            if isinstance(n, ast.Name) and n.id == "self" and not getattr(n, "is_call_base", False):
                self.abort(n, "use of 'self' other than self.<declared attribute> or self.<method>(..)")
        self.RR = st if init else f"{st} * {self.R}"
        binders = " ".join(self.binder(fn, p) for p in self.params)
        name = self.prefix + (self.spec.alias or fn.name)
        head = f"(* {cls.name}.{fn.name}, line {fn.lineno} *)\n"

        def fall(env):
            missing = [v for v in self.fieldvars if v not in env]
            if missing:
                self.abort(fn, f"__init__ does not assign {missing[0].replace(chr(39), '.')} on every path at top level")
            return f"Ok {self.state(fn)}"
        ctx = _Ctx(ret=lambda e: f"Ok {self.pack(e)}", fail=lambda e: f"Err {e}", fall=fall if init else None,
                   retp=lambda e: f"Ok {e}")
        body = self.block(fn.body, list(self.params) + ([] if init else self.fieldvars), ctx)
        if init:
            return head + "\n\n".join(self.fixpoints + [
                f"Definition {name}{' ' * bool(binders)}{binders} : res ({self.RR}) :=\n" + "\n".join(_ind(body)) + "."])
        body = [f"let '{self.state(fn)} := self in"] + body
        if not self.in_rec:
            if self.spec.rec_fuel:
                self.abort(fn, "fuel declared for a method that does not call itself")
            return head + "\n\n".join(self.fixpoints + [
                f"Definition {name} (self : {st}){' ' * bool(binders)}{binders} : res ({self.RR}) :=\n" + "\n".join(_ind(body)) + "."])
        if self.fixpoints:
            self.abort(fn, "recursive method with loops")
        rec = [f"Fixpoint {name}_rec (fuel' : nat) (self : {st}) {binders} {{struct fuel'}} : res ({self.RR}) :=",
               "  match fuel' with", "  | O => Err OutOfFuel", "  | S fuel'' =>"] + _ind(_ind(body)) + ["  end."]
        top = [f"Definition {name} (self : {st}){' ' * bool(binders)}{binders} : res ({self.RR}) :=",
               f"  {name}_rec ({self.spec.rec_fuel}) self {' '.join(self.params)}."]
        return head + "\n".join(rec) + "\n\n" + "\n".join(top)


class _SelfRewriter(ast.NodeTransformer):
    """`self.f` (f a declared attribute) -> the variable `self'f`; marks the `self` of `self.m(..)`."""

    def __init__(self, fun: _Fun, cls: ClassSpec):
        self.fun, self.cls = fun, cls

    def visit_Call(self, node):
        if _is_self_call(node):
            node.func.value.is_call_base = True
            node.args = [self.visit(a) for a in node.args]
            return node
        return self.generic_visit(node)

    def visit_Attribute(self, node):
        if isinstance(node.value, ast.Name) and node.value.id == "self":
            if node.attr not in self.cls.fields:
                self.fun.abort(node, f"self.{node.attr} is not a declared attribute")
            if isinstance(node.ctx, ast.Del):
                self.fun.abort(node, "del of an attribute")
            return ast.copy_location(ast.Name(id="self'" + node.attr, ctx=node.ctx), node)
        return self.generic_visit(node)


def translate_function(path: Path, fn: ast.FunctionDef, spec: FunSpec, prefix: str = "gen_") -> str:
    """Gallina text (loop Fixpoints, then the Definition) for one function; uses `A` and `eqb` of the enclosing Section."""
    for t in list(spec.types.values()) + [spec.ret]:
        if t not in COQ_TYPE:
            raise TranslatorAbort(f"{path}:{fn.lineno}: unknown declared type {t!r} for {fn.name}")
    return _Fun(path, fn, spec, prefix).translate()


class Unit:
    """One generated file: functions and classes of one Python module, translated in the order
    given (a callee before its callers), plus the prelude with exactly the errors/helpers used."""

    def __init__(self, path: Path, tree: ast.Module, prefix: str = "gen_", elem_lt: bool = False):
        self.path, self.tree, self.prefix, self.elem_lt = path, tree, prefix, elem_lt
        self.functions: Dict[str, FunSpec] = {}
        self.params: Dict[object, List[str]] = {}
        self.done_methods: Dict[str, List[FunSpec]] = {}
        self.errors: set = set()
        self.helpers: set = set()

    def abort(self, node, msg):
        raise TranslatorAbort(f"{self.path}:{getattr(node, 'lineno', 0)}: {msg}")

    def _norm(self, node, spec: FunSpec, extra: Dict[str, str] = None) -> FunSpec:
        try:
            types = {k: norm_type(v) for k, v in spec.types.items()}
            ret = norm_type(spec.ret) if spec.ret else ""
            for v in (extra or {}).values():
                norm_type(v)
        except ValueError as e:
            self.abort(node, f"unknown declared type {e.args[0]!r} for {spec.name}")
        return replace(spec, types=types, ret=ret)

    def _unique(self, body, name, kind):
        """The one definition of `name` among the statements `body`, which nothing rebinds."""
        scope = ast.Module(body=body, type_ignores=[])
        defs = [n for n in ast.walk(scope) if isinstance(n, (ast.FunctionDef, ast.AsyncFunctionDef, ast.ClassDef))
                and n.name == name]
        stores = [n for n in ast.walk(self.tree) if isinstance(n.__dict__.get("ctx"), (ast.Store, ast.Del))
                  and (isinstance(n, ast.Name) and n.id == name or isinstance(n, ast.Attribute) and n.attr == name
                       and not (isinstance(n.value, ast.Name) and n.value.id == "self"))]
        if len(defs) != 1 or not isinstance(defs[0], kind) or defs[0] not in body or stores:
            where = (defs + stores + [self.tree])[0]
            self.abort(where, f"{name!r} is not defined exactly once, at the expected level, as a definition that is never rebound")
        return defs[0]

    def function(self, spec: FunSpec) -> str:
        fn = self._unique(self.tree.body, spec.name, ast.FunctionDef)
        spec = self._norm(fn, spec)
        text = _Fun(self.path, copy.deepcopy(fn), spec, self.prefix, unit=self).translate()
        self.functions[spec.name] = spec
        self.params[spec.name] = [x.arg for x in fn.args.args]
        return text

    def klass(self, cspec: ClassSpec) -> str:
        cls = self._unique(self.tree.body, cspec.name, ast.ClassDef)
        if cls.decorator_list or cls.keywords:
            self.abort(cls, "decorated class / class with keywords (metaclass)")
        for b in cls.bases:
            if not (isinstance(b, ast.Name) and b.id == "object" or isinstance(b, ast.Subscript)
                    and isinstance(b.value, ast.Name) and b.value.id == "Generic"):
                self.abort(b, "base class other than object / Generic[..] (it could change what attribute access means)")
        for b in cls.body:
            doc = isinstance(b, ast.Expr) and isinstance(b.value, ast.Constant) and isinstance(b.value.value, str)
            if not (isinstance(b, (ast.FunctionDef, ast.Pass)) or doc):
                self.abort(b, "class body statement other than a method definition")
            if isinstance(b, ast.FunctionDef) and (b.name in FORBIDDEN_METHODS or b.name in cspec.fields):
                self.abort(b, f"the class defines {b.name!r}, which changes what attribute access means")
        try:
            fields = {k: norm_type(v) for k, v in cspec.fields.items()}
        except ValueError as e:
            self.abort(cls, f"unknown declared type {e.args[0]!r} for an attribute of {cspec.name}")
        for f in fields:
            if f in RESERVED or not f.isascii() or not f.isidentifier():
                self.abort(cls, f"attribute name {f!r} collides with the generated Coq text")
        cspec = replace(cspec, fields=fields, methods=[self._norm(cls, m) for m in cspec.methods])
        st = f"{cspec.short}_state"
        parts = [f"(* class {cspec.name}, line {cls.lineno} *)\nRecord {st} : Type := mk_{cspec.short} {{ "
                 + "; ".join(f"{cspec.short}_{f} : {coq_type(t)}" for f, t in fields.items()) + " }."]
        self.done_methods[cspec.name] = []
        for m in cspec.methods:
            fn = self._unique(cls.body, m.name, ast.FunctionDef)
            self.params[(cspec.name, m.name)] = [x.arg for x in fn.args.args][1:]
            parts.append(_Fun(self.path, copy.deepcopy(fn), m, self.prefix, unit=self, cls=cspec).translate())
            self.done_methods[cspec.name].append(m)
        return "\n\n".join(parts)

    def prelude(self) -> str:
        """Error/result types (with the error constructors used) and the helper functions used."""
        extra = [e for e in EXTRA_ERRORS if e in self.errors]
        text = PRELUDE.replace("IndexError | OutOfFuel.", " | ".join(["IndexError", "OutOfFuel"] + extra) + ".")
        need = set()
        for hname in self.helpers:
            need.add(hname)
            need.update(HELPER_DEPS.get(hname, []))
        return text + "".join("\n" + HELPERS[k] + "\n" for k in HELPERS if k in need)

    def section_defs(self) -> str:
        """Definitions to place inside the Section, after its Context (they use `ltb`)."""
        return PY_MIN + "\n" if "py_min" in self.helpers else ""
